#!/usr/bin/env python3
"""Replays the self-test mutant corpus: each mutant is applied to a scratch copy of /repo, it must still compile, and every listed property must report a violation.
usage: run_mutants.py [name-substring ...] [--tests]   (--tests also runs the repo's test suite on the mutant to confirm the tests do not kill it)"""
import sys, os, subprocess, tempfile, shutil, difflib, json
HERE = os.path.dirname(os.path.abspath(__file__))
sys.path.insert(0, HERE)
from mutants import M
VERIF = os.path.dirname(HERE)
args = [a for a in sys.argv[1:] if not a.startswith("--")]
run_tests = "--tests" in sys.argv
res = []
for name, rel, pairs, props in M:
    if args and not any(a in name for a in args):
        continue
    tmp = tempfile.mkdtemp(prefix="mut.", dir="/tmp")
    try:
        subprocess.run(["rsync", "-a", "--exclude", "target", "--exclude", ".git", "/repo/", tmp + "/"], check=True)
        p = os.path.join(tmp, rel)
        s = open(p).read()
        ok = True
        for old, new in pairs:
            if old not in s:
                ok = False
                break
            s = s.replace(old, new, 1)
        if not ok:
            res.append((name, "STALE (pattern not found)", {}))
            continue
        open(p, "w").write(s)
        out = {}
        for pid in props:
            r = subprocess.run(["python3", os.path.join(VERIF, "sa/run.py"), pid, "--repo", tmp], capture_output=True, text=True, env=dict(os.environ, VERIF_NO_EVIDENCE="1"))
            first = [l for l in r.stdout.splitlines() if l.startswith("  rule")]
            out[pid] = (r.returncode, first[0][:230] if first else r.stdout.strip().splitlines()[-1][:200] if r.stdout.strip() else r.stderr[-200:])
        tests = None
        if run_tests:
            r = subprocess.run("cd %s && CARGO_NET_OFFLINE=true CARGO_TARGET_DIR=/tmp/mut-target cargo test --workspace --offline -q 2>&1 | grep -E 'test result|error' | grep -v ' 0 failed' | head -3" % tmp, shell=True, capture_output=True, text=True)
            tests = r.stdout.strip() or "suite passes"
        res.append((name, "ok", out, tests))
    finally:
        shutil.rmtree(tmp, ignore_errors=True)
bad = 0
for r in res:
    name, status, out = r[0], r[1], r[2]
    if status != "ok":
        print("%-40s %s" % (name, status)); bad += 1; continue
    for pid, (rc, line) in out.items():
        verdict = "CAUGHT" if rc == 1 else ("NOT-BUILT" if rc == 2 else "MISSED")
        if rc != 1: bad += 1
        print("%-40s %s %-9s %s" % (name, pid, verdict, line))
    if len(r) > 3 and r[3]:
        print("%-40s tests: %s" % ("", r[3]))
print("mutants: %d, problems: %d" % (len(res), bad))
sys.exit(1 if bad else 0)
