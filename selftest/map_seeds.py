#!/usr/bin/env python3
"""Runs every check against every seeded change (scratch copies, in parallel) and records which checks report it.
usage: map_seeds.py [--update]   (--update rewrites seeded/*/meta.json 'caught_by')"""
import sys, os, subprocess, tempfile, shutil, json, glob, re
from concurrent.futures import ThreadPoolExecutor
HERE = os.path.dirname(os.path.abspath(__file__))
VERIF = os.path.dirname(HERE)
PROPS = ["C%02d" % i for i in range(1, 21)]


def run_one(d):
    patch = os.path.join(d, "patch.diff")
    tmp = tempfile.mkdtemp(prefix="seed.", dir="/tmp")
    try:
        subprocess.run(["rsync", "-a", "--exclude", "target", "--exclude", ".git", "/repo/", tmp + "/"], check=True)
        mp0 = os.path.join(d, "meta.json")
        base = (json.load(open(mp0)) if os.path.isfile(mp0) else {}).get("base")
        todo = ([os.path.join(VERIF, "selftest", "equivalents", base + ".diff")] if base else []) + [patch]
        for one in todo:
            r = subprocess.run(["patch", "-p1", "-s", "-d", tmp, "-i", one], capture_output=True, text=True)
            if r.returncode != 0:
                return (d, None, "patch does not apply")
        r = subprocess.run(["python3", os.path.join(VERIF, "sa", "run.py"), ",".join(PROPS), "--repo", tmp], capture_output=True, text=True, env=dict(os.environ, VERIF_NO_EVIDENCE="1"))
        if r.returncode == 2:
            return (d, None, "does not build: " + r.stdout[-200:])
        caught = {}
        cur = None
        for l in r.stdout.splitlines():
            m = re.match(r"^(C\d\d) \[", l)
            if m:
                cur = m.group(1)
                continue
            if l.startswith("  rule") and cur and cur not in caught:
                caught[cur] = l.strip()[:260]
        return (d, caught, None)
    finally:
        shutil.rmtree(tmp, ignore_errors=True)


dirs = sorted(d for d in glob.glob(os.path.join(VERIF, "seeded", "*")) if os.path.isfile(os.path.join(d, "patch.diff")))
with ThreadPoolExecutor(max_workers=8) as ex:
    res = list(ex.map(run_one, dirs))
bad = 0
for d, caught, err in res:
    name = os.path.basename(d)
    if err:
        print("%-12s %s" % (name, err)); bad += 1; continue
    print("%-12s caught by: %s" % (name, " ".join(sorted(caught)) or "NOBODY"))
    if not caught:
        bad += 1
    if "--update" in sys.argv:
        mp = os.path.join(d, "meta.json")
        meta = json.load(open(mp)) if os.path.isfile(mp) else {}
        meta["caught_by"] = {k: v for k, v in sorted(caught.items())}
        json.dump(meta, open(mp, "w"), indent=1)
print("seeds: %d, uncaught/stale: %d" % (len(res), bad))
