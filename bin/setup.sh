#!/bin/bash
# Build the framework offline from files on disk.
set -euo pipefail
cd "$(dirname "$0")/.."
export CARGO_NET_OFFLINE=true
( cd tools/mirfacts && cargo build --release --offline -q )
( cd tools/rxlang && cargo build --release --offline -q )
[ -x tools/mirfacts/target/release/mirfacts ]
mkdir -p .cache evidence
echo "setup ok"
