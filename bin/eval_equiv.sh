#!/bin/bash
# usage: eval_equiv.sh <ID>   -- runs ALL checks against the behaviour-preserving refactorings R1..R4 of agent E<ID>; any report is a suspected false alarm
ID=$1
ALL=C01,C02,C03,C04,C05,C06,C07,C08,C09,C10,C11,C12,C13,C14,C15,C16,C17,C18,C19,C20
for v in R1 R2 R3 R4; do
  P=/tmp/agents/E$ID-out/$v/patch.diff
  [ -s $P ] || { echo "E$ID/$v: no patch"; continue; }
  echo "=== E$ID/$v ($(grep -c '^[-+][^-+]' $P) changed lines; $(grep '^+++ ' $P | sed 's/+++ b\///' | tr '\n' ' '))"
  /verif/bin/try_mutant.sh $P $ALL 2>&1 | grep -E '^C[0-9]+ \[|^  rule|PATCH|does not build' | grep -v ' 0 violation' | cut -c1-300 | awk '/^C[0-9]+ \[/{print; n=0; next} {n++; if(n<=3) print}'
done
