#!/bin/bash
# usage: confirm_seed.sh <ID> <A|B>
# Confirms an agent-produced change in a fresh scratch worktree: (1) suite passes with the change, (2) demo fails with it, (3) demo passes without it.
# On success copies it to /verif/seeded/<ID>-<v>/ with meta.json.
set -u
ID=$1; V=$2
PID=C${ID: -2}   # property id = the two digits at the end of the agent directory name (S01, AC01, AE01 ...)
SRC=/tmp/agents/$ID-out/$V
WT=/tmp/confirm-$ID-$V
TGT=${CONFIRM_TGT:-/tmp/confirm-target}   # target dir shared by the sequential runs of one lane
rm -rf $WT; git -C /repo worktree add -q --detach $WT HEAD || exit 9
cleanup() { git -C /repo worktree remove --force $WT 2>/dev/null; }
trap cleanup EXIT
DEST=$(grep -oE '(libs/[a-z]+/)?tests/[A-Za-z0-9_]+\.rs' $SRC/notes.md | head -1)
[ -z "$DEST" ] && { echo "cannot find demo destination in notes.md"; exit 8; }
PKG=""; case "$DEST" in libs/core/*) PKG="-p flipdot-core";; libs/serial/*) PKG="-p flipdot-serial";; libs/testing/*) PKG="-p flipdot-testing";; *) PKG="-p flipdot";; esac
TNAME=$(basename $DEST .rs)
cd $WT
export CARGO_NET_OFFLINE=true CARGO_TARGET_DIR=$TGT
git apply $SRC/patch.diff || { echo "patch does not apply"; exit 7; }
SUITE=$(cargo test --workspace --offline 2>&1 | grep -E '^test result|error(\[|:)' )
if echo "$SUITE" | grep -qE 'FAILED|error'; then echo "SUITE FAILS WITH CHANGE:"; echo "$SUITE" | grep -E 'FAILED|error' | head; exit 6; fi
NPASS=$(echo "$SUITE" | grep -oE '[0-9]+ passed' | awk '{s+=$1} END{print s}')
mkdir -p $(dirname $DEST); cp $SRC/demo.rs $DEST
WITH=$(cargo test $PKG --test $TNAME --offline 2>&1 | grep -E '^test result|^error' | head -3)
git checkout -q -- . 
WITHOUT=$(cargo test $PKG --test $TNAME --offline 2>&1 | grep -E '^test result|^error' | head -3)
echo "suite with change: $NPASS passed, 0 failed"; echo "demo with change:    $WITH"; echo "demo without change: $WITHOUT"
if echo "$WITH" | grep -q 'FAILED' && echo "$WITHOUT" | grep -q 'test result: ok' ; then
  D=/verif/seeded/$PID-$V; mkdir -p $D; cp $SRC/patch.diff $SRC/demo.rs $SRC/notes.md $D/
  python3 - "$PID" "$V" "$DEST" "$PKG" "$TNAME" "$NPASS" "$WITH" "$WITHOUT" <<'PY'
import sys,json
ID,V,DEST,PKG,TNAME,NPASS,WITH,WITHOUT=sys.argv[1:9]
json.dump({"breaks_property":ID,"origin":"independent sub-agent given only the property text and a scratch worktree","demo_location":DEST,
 "demo_command":"cargo test %s --test %s --offline"%(PKG,TNAME),
 "confirmed":{"suite_with_change":"%s passed, 0 failed"%NPASS,"demo_with_change":WITH,"demo_without_change":WITHOUT},
 "needs_to_manifest":"see notes.md"},open("/verif/seeded/%s-%s/meta.json"%(ID,V),"w"),indent=1)
PY
  echo "CONFIRMED -> $D"
else echo "NOT CONFIRMED"; exit 5; fi
