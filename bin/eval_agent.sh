#!/bin/bash
# usage: eval_agent.sh <ID> [props...]  -- runs checks against agent patches A and B
ID=$1; shift
PROPS="$@"; [ -z "$PROPS" ] && PROPS=C${ID: -2}
for v in A B C D E F G H I J K L M N P Q R S T U; do
  P=/tmp/agents/$ID-out/$v/patch.diff
  [ -f $P ] || continue
  echo "=== $ID/$v  ($(grep -c '^[-+][^-+]' $P) changed lines; files: $(grep '^+++ ' $P | sed 's/+++ b\///' | tr '\n' ' '))"
  /verif/bin/try_mutant.sh $P $PROPS 2>&1 | grep -E '^C[0-9]+ \[|^  rule|PATCH' | cut -c1-260 | awk '/^C[0-9]+ \[/{print; n=0; next} {n++; if(n<=2) print}'
done
