#!/usr/bin/env python3
"""mkpatch.py <relpath> <out.diff> : reads replacement pairs from stdin as python list [(old,new),...] and writes a unified diff against /repo's current file."""
import sys, difflib, ast
rel, out = sys.argv[1], sys.argv[2]
pairs = ast.literal_eval(sys.stdin.read())
src = open('/repo/' + rel).read()
dst = src
for old, new in pairs:
    assert dst.count(old) >= 1, "pattern not found: %r" % old[:60]
    dst = dst.replace(old, new, 1)
d = difflib.unified_diff(src.splitlines(True), dst.splitlines(True), 'a/' + rel, 'b/' + rel)
open(out, 'w').write(''.join(d))
