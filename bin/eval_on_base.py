#!/usr/bin/env python3
"""usage: eval_on_base.py <base.diff> <change.diff> [props]  -- scratch copy of /repo + a behaviour-preserving refactoring + a
breaking change made on top of it; runs the checks and prints the first report per property."""
import sys, os, subprocess, tempfile, shutil, re
VERIF = "/verif"
base, change = sys.argv[1], sys.argv[2]
props = sys.argv[3] if len(sys.argv) > 3 else ",".join("C%02d" % i for i in range(1, 21))
tmp = tempfile.mkdtemp(prefix="onbase.", dir="/tmp")
try:
    subprocess.run(["rsync", "-a", "--exclude", "target", "--exclude", ".git", "/repo/", tmp + "/"], check=True)
    for p in (base, change):
        r = subprocess.run(["patch", "-p1", "-s", "-d", tmp, "-i", os.path.abspath(p)], capture_output=True, text=True)
        if r.returncode != 0:
            print("PATCH-FAILS", p, r.stdout[-200:]); sys.exit(9)
    r = subprocess.run(["python3", VERIF + "/sa/run.py", props, "--repo", tmp], capture_output=True, text=True, env=dict(os.environ, VERIF_NO_EVIDENCE="1"))
    if r.returncode == 2:
        print("NO-BUILD", r.stdout[-300:]); sys.exit(2)
    cur = None; seen = set(); caught = []
    for l in r.stdout.splitlines():
        m = re.match(r"^(C\d\d) \[", l)
        if m:
            cur = m.group(1); continue
        if l.startswith("  rule") and cur and cur not in seen:
            seen.add(cur); caught.append(cur)
            print("%s %s" % (cur, l.strip()[:int(os.environ.get("W", "220"))]))
    print("caught by:", " ".join(caught) or "NOBODY")
finally:
    shutil.rmtree(tmp, ignore_errors=True)
