#!/usr/bin/env python3
"""Evaluate all agent equivalence refactorings (parallel). Prints a compact table: patch -> checks that (falsely) report + first rule."""
import sys, os, subprocess, tempfile, shutil, glob, re
from concurrent.futures import ThreadPoolExecutor
VERIF="/verif"
PROPS=",".join("C%02d"%i for i in range(1,21))
def run(p):
    tmp=tempfile.mkdtemp(prefix="eq.",dir="/tmp")
    try:
        subprocess.run(["rsync","-a","--exclude","target","--exclude",".git","/repo/",tmp+"/"],check=True)
        r=subprocess.run(["patch","-p1","-s","-d",tmp,"-i",p],capture_output=True,text=True)
        if r.returncode!=0: return (p,"PATCH-FAILS",{})
        r=subprocess.run(["python3",VERIF+"/sa/run.py",PROPS,"--repo",tmp],capture_output=True,text=True,env=dict(os.environ,VERIF_NO_EVIDENCE="1"))
        if r.returncode==2: return (p,"NO-BUILD",{})
        out={}; cur=None
        for l in r.stdout.splitlines():
            m=re.match(r"^(C\d\d) \[",l)
            if m: cur=m.group(1); continue
            if l.startswith("  rule") and cur and cur not in out: out[cur]=l.strip()[:int(os.environ.get("W","200"))]
        return (p,"ok",out)
    finally: shutil.rmtree(tmp,ignore_errors=True)
pats=sys.argv[1:] or sorted(glob.glob("/tmp/agents/EC*-out/R*/patch.diff"))
with ThreadPoolExecutor(max_workers=8) as ex: res=list(ex.map(run,pats))
nsilent=0
for p,st,out in res:
    name="/".join(p.split("/")[3:5]).replace("-out","")
    if st!="ok": print("%-10s %s"%(name,st)); continue
    if not out: nsilent+=1; continue
    for c,l in sorted(out.items()): print("%-10s %s %s"%(name,c,l))
print("patches: %d, silent: %d"%(len(res),nsilent))
