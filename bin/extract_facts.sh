#!/bin/bash
# usage: extract_facts.sh <repo-dir> <out-dir>
# Runs the mirfacts driver over the workspace's lib crates in a FRESH target dir
# (so cargo can never skip the wrapper), asserts the four fact files appeared.
set -euo pipefail
REPO="$1"; OUT="$2"
HERE="$(cd "$(dirname "$0")/.." && pwd)"
DRV="$HERE/tools/mirfacts/target/release/mirfacts"
[ -x "$DRV" ] || { echo "mirfacts driver not built (run setup)"; exit 2; }
SYSROOT="$(rustc +nightly --print sysroot)"
TGT="$(mktemp -d "${TMPDIR:-/tmp}/mirfacts-tgt.XXXXXX")"
trap 'rm -rf "$TGT"' EXIT
mkdir -p "$OUT"
rm -f "$OUT"/*.json
cd "$REPO"
if ! LD_LIBRARY_PATH="$SYSROOT/lib" MIRFACTS_OUT="$OUT" \
   RUSTFLAGS="-Zmir-opt-level=0 -Awarnings" RUSTC_WORKSPACE_WRAPPER="$DRV" \
   CARGO_NET_OFFLINE=true CARGO_TARGET_DIR="$TGT" \
   cargo +nightly check --offline --workspace --lib -q > "$OUT/cargo.log" 2>&1; then
  cat "$OUT/cargo.log"
  echo "extract_facts: cargo check failed"
  exit 2
fi
for c in flipdot_core flipdot_serial flipdot_testing flipdot; do
  [ -s "$OUT/$c.json" ] || { echo "extract_facts: missing fact file $c.json"; exit 2; }
done
