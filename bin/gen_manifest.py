#!/usr/bin/env python3
"""Regenerates MANIFEST.json from the table below (kept in one place so the manifest is always valid)."""
import json, os
HERE = os.path.dirname(os.path.dirname(os.path.abspath(__file__)))
props = [json.loads(l) for l in open(os.path.join(HERE, "properties.jsonl"))]
TB = "Trusted: rustc front end + MIR construction (opt-level 0), the std/external models in sa/models.py (one doc citation each), 64-bit usize, debug overflow checks. "
CLAIMED = {
 "C04": ("proof", "A1 decision-table extraction over MIR + table comparison",
         "Both From impls are turned into decision tables by enumerating every MIR path over symbolic parameters (no input is ever chosen); every cell of the (length class x 256 types x 256 first bytes) space is compared with the reference code table and the composite Frame->Message->Frame is shown to be the identity row by row.",
         TB + "Reference table spec/wire_codes.json (shape from the property text; code bytes frozen from the pinned tree).", "DESIGN.md 4 C04"),
 "C05": ("proof", "A1 decision-table extraction over MIR + table composition",
         "Every row of the extracted Message->Frame table (all variants x 13 states x 6 operations) is pushed through the extracted Frame->Message table for every data-length class; the result must be the original message term; wire keys are pairwise distinct.",
         TB + "Claimed modulo C01 for the frame<->bytes leg.", "DESIGN.md 4 C05"),
 "C12": ("proof", "A4 panic-site inventory over enumerated MIR paths with discharge rules D1-D6",
         "Every path of VirtualSign::process_message (all handlers and the core functions they reach, inlined) and of the bus loop is enumerated over fully symbolic sign state and message at both logging extremes, plus every hand-written fmt impl reachable through formatting arguments. Each panic-capable construct on a path (Assert terminators, unwrap/expect, range indexing, integer sum, explicit panics, unknown externals) must be discharged by path constraints, interval analysis over type ranges, the Page invariant (C07) or a bounded-sum rule; anything else is a finding.",
         TB + "Page invariant len(bytes)=total_bytes(w,h)>=16 (C07 + A5) and lemma L3; allocation failure out of scope; derive-generated fmt impls trusted.", "DESIGN.md 4 C12, 3 A4"),
 "C13": ("proof", "A1 decision-table extraction of the sign dispatcher + comparison with a reference machine",
         "VirtualSign::process_message with all handlers inlined is summarised per path as (conditions) -> (reply, field writes); the table is compared with the reference sign machine (DESIGN.md Appendix B, sa/p_vsign.py ref_step) on every abstract vector (13 states x message classes x operation x own/foreign x offset/length/family/count/buffer conditions x flip style), at both logging extremes; reassembly writers are checked on the same paths.",
         TB + "The reference machine is a frozen reading of the property text and the State/Operation docs.", "DESIGN.md 4 C13"),
 "C14": ("proof", "A1/A2 guard-completeness, write-gating and reply-address rules on the extracted sign table; loop-shape rule on the bus",
         "Reference-free: every path that replies or writes for an addressed kind took the address-equality edge; replies carry self.address; every path that writes for an unaddressed kind is restricted to the receiving states; the bus loop offers the message to signs in order and returns the first reply unchanged.",
         TB + "Non-interference over interleavings follows from these per-step facts (at most one sign satisfies the address atom; unaddressed kinds only touch receiving signs).", "DESIGN.md 4 C14"),
 "C19": ("proof", "A1 table extraction + constant evaluation + cross-table relation",
         "to_bytes / dimensions / from_bytes are extracted as tables with rustc-evaluated constants; their mutual consistency, the height/width/bits-per-column relations inside each block, the virtual sign's derivation evaluated on each block, and from_bytes' length/acceptance conditions are checked for all 11 types and all paths.",
         TB, "DESIGN.md 4 C19"),
}
REASONS = {}
checks = []
for pid, (lvl, tech, text, note, ref) in CLAIMED.items():
    checks.append({"property_id": pid, "quick_cmd": "./check %s --tier quick" % pid, "thorough_cmd": "./check %s --tier thorough" % pid,
                   "evidence_file": "evidence/%s.json" % pid, "replay_cmd_template": "./check %s --tier quick  # the replay file {path} names the construct and rule" % pid,
                   "engine": "mirfacts+sa", "level_claimed": {"category": lvl, "text": text, "design_ref": ref}, "level_note": note, "technique": tech})
na = [{"property_id": p["id"], "reason": REASONS.get(p["id"], "check under construction in this session (engine for it not finished yet); see DESIGN.md section 4")} for p in props if p["id"] not in CLAIMED]
m = {"version": 1, "setup_cmd": "cd /verif && bash bin/setup.sh",
     "hooks": {"guard": "flipdot_verif", "enable": "no hooks: the checks read /repo's sources through a rustc driver; nothing in /repo is instrumented",
               "baseline_off_cmd": "cd /repo && cargo test --workspace --no-fail-fast --offline", "source_commits": [], "add_only": True},
     "engines": [{"name": "mirfacts", "path": "tools/mirfacts", "serves_properties": [p["id"] for p in props], "kind_free_text": "rustc_private driver dumping MIR/ADTs/constants/resolved callees as JSON"},
                 {"name": "sa", "path": "sa", "serves_properties": [p["id"] for p in props], "kind_free_text": "path-sensitive abstract evaluator over MIR + per-property rule modules (python3 stdlib)"}],
     "checks": checks, "not_applicable": na,
     "notes": "Static analysis only (no flipdot code is executed). fix: commits in /repo are listed in known_findings.json."}
json.dump(m, open(os.path.join(HERE, "MANIFEST.json"), "w"), indent=1)
print("claimed:", sorted(CLAIMED), "not_applicable:", len(na))
