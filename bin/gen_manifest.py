#!/usr/bin/env python3
"""Regenerates MANIFEST.json from the table below (kept in one place so the manifest is always valid)."""
import json, sys, os
HERE = os.path.dirname(os.path.dirname(os.path.abspath(__file__)))
props = [json.loads(l) for l in open(os.path.join(HERE, "properties.jsonl"))]
TB = "Trusted: rustc front end + MIR construction (opt-level 0), the std/external models in sa/models.py (one doc citation each), 64-bit usize, debug overflow checks. "
CLAIMED = {
 "C01": ("proof", "A5 typestate/encapsulation + A3 byte-sequence & bit-provenance & affine-mod-256 domains + A6 regex layout + A2 field-binding rules (round trip by lemma L1)",
         "Decides the structural clauses and says so: Data can only be built by try_new on the len <= 255 edge and is never mutated; Frame::payload is [trunc8(len), addr[15:8], addr[7:0], type] ++ data in bit provenance; the checksum is affine -sum mod 256; to_bytes emits ':' then HEX[b>>4], HEX[b&15] from \"0123456789ABCDEF\" for every byte of payload ++ [checksum], with_newline appends CRLF; the decoder builds its frame from the regex groups at the documented offsets parsed base 16. decode(encode(f)) = f then follows by the code-independent lemma L1.",
         TB + "Lemma L1; Vec::with_capacity(n).capacity() == n (the code's own assert_eq!).", "DESIGN.md 4 C01"),
 "C02": ("proof", "A6 regex-to-DFA language equality + A2 must-pass rules on the decoder + A3 on the LRC (corruption detection by lemma L2)",
         "Decides that Frame::from_bytes returns Ok iff the input is in L = {documented shape, declared length == number of data pairs, LRC matches}: the regex literal (read from the compiled program) is turned into a minimised DFA with the repo's own regex-automata and compared for language equality with the documented shape; every path to Ok passes the equality edges of the length and checksum tests computed over the parsed fields; the LRC covers length, address, type and data. That every listed single corruption leaves L or decodes to the same frame is lemma L2.",
         TB + "Lemma L2; regex-syntax 0.8.11 / regex-automata 0.4.18 compile the literal as regex 1.13.1's bytes::Regex does.", "DESIGN.md 4 C02"),
 "C03": ("proof", "A6 language equality (strictness) + A4 unwrap lemmas from the regex group layout (totality) + A2 order/payload rules (classification)",
         "Strictness = regex language equality; totality = every unwrap on the decoder's paths discharged by a lemma from the group layout (group on every match path, hex-only hence UTF-8, 1..=2 / 1..=4 hex digits parse as u8 / u16, data group a whole number of pairs, literal compiles), the Data length error unreachable, no other panic site; classification = InvalidFrame exactly on no-match and first, length test before checksum test, error payloads bound to declared/actual and provided/computed.",
         TB + "'Agrees with an independent parser' is decided against the written specification instead of a second parser.", "DESIGN.md 4 C03"),
 "C04": ("proof", "A1 decision-table extraction over MIR + table comparison",
         "Both From impls are turned into decision tables by enumerating every MIR path over symbolic parameters (no input is ever chosen); every cell of the (length class x 256 types x 256 first bytes) space is compared with the reference code table and the composite Frame->Message->Frame is shown to be the identity row by row.",
         TB + "Reference table spec/wire_codes.json (shape from the property text; code bytes frozen from the pinned tree).", "DESIGN.md 4 C04"),
 "C05": ("proof", "A1 decision-table extraction over MIR + table composition",
         "Every row of the extracted Message->Frame table (all variants x 13 states x 6 operations) is pushed through the extracted Frame->Message table for every data-length class; the result must be the original message term; wire keys are pairwise distinct.",
         TB + "Lemma L1 for the frame<->bytes leg (C01's rule set is run as part of this check).", "DESIGN.md 4 C05"),
 "C06": ("proof", "A2 guard-ordering rules + A7 canonical forms + A3 bit-mask shapes + A5 who-writes + A4 panic inventory on the Page accessors",
         "Decides the structural clauses: every returning path of get_pixel/set_pixel admits exactly x < width and y < height (orderings of the compared pairs) and every other path ends in the bounds panic before any write; the addressed byte is 4 + x*ceil(h/8) + floor(y/8) and the mask 1 << (y % 8) in canonical form; get reads (b & mask) == mask, set performs exactly one store b|mask / b&!mask; set_all_pixels fills exactly [4, data_bytes) with 0xFF/0x00; no other code takes &mut to Page.bytes or assigns width/height or constructs a Page; in-bounds calls reach no undischarged panic site. Non-interference between pixels is lemma L3 (code-independent).",
         TB + "Lemma L3; Page invariant.", "DESIGN.md 4 C06"),
 "C07": ("proof", "A3 byte-sequence extraction + A7 canonical-form comparison + A2 accept-iff-length rule",
         "Page::new's byte sequence is extracted symbolically ([id,0x10,0,0] ++ zero fill to data_bytes ++ 0xFF fill to total_bytes) and the size/index/bit formulas are compared in canonical polynomial form with the specification; Page::from_bytes has exactly one test (len == total_bytes) and stores the given bytes unmodified; as_bytes is a shared borrow of them; equality is the derived one. Distinct pixels never sharing a bit is lemma L3.",
         TB + "Lemma L3.", "DESIGN.md 4 C07"),
 "C08": ("model_checking", "product of the two extracted automata (A8 controller graph x A1 sign table) over an abstract sign state, to a fixpoint; reference-free",
         "Decides the control plane and the reassembly shape, and says so: from every abstract sign state reachable under arbitrary traffic (fixpoint of the extracted sign table) and for both flip styles, the extracted configure automaton ends Ok with the sign in ConfigReceived, no pages, the requested type, clean counters; send_pages then ends Ok in PageLoaded/ShowingPages with the matching return value and the stored pages in sync with the pages sent (ghost relations on counter, buffer and page list); show/load-next move a manual sign and leave an automatic one; configure_if_needed likewise from the prior states the property allows. Bit-exact page bytes follow by composition (C09.O2, C13.O2, C07.O3; lemma L4), not re-derived.",
         TB + "Abstraction of data-dependent conditions by ghost relations (counter equality, buffer == page in flight); pages have the requested type's size; lemma L4.", "DESIGN.md 4 C08"),
 "C09": ("proof", "A8 automaton extraction + A3 term-shape rules on the transfer routine",
         "On the extracted automata of configure and send_pages: data follows the request only on the own-address ack; each SendData term is Offset(trunc16(i*16)) + Data(chunk) with (i, chunk) from the same item.chunks(16).enumerate(), items taken from the caller's iterator; the counter variable is 0 after the ack, +1 per accepted chunk, and is what DataChunksSent announces; the result query follows; configure sends once(self.sign_type.to_bytes()), send_pages maps pages to as_bytes.",
         TB + "std contracts of chunks/enumerate/Clone of the item iterator. Exact within the property's 16-bit bound.", "DESIGN.md 4 C09"),
 "C10": ("model_checking", "A8 protocol-automaton extraction from MIR + bisimulation against the documented protocol over a 48-value abstract reply alphabet",
         "The automaton of each of Sign's six public operations is extracted from MIR (nodes = bus-call sites x call stack x attempt counter; replies are fresh symbols; edges carry the code's own tests, joined to a fixpoint) and compared by bisimulation with the documented protocol (DESIGN.md Appendix C): same message at every step, same successor or outcome for every abstract reply (bus error, none, 13 states x own/foreign, 6 acks x own/foreign, 8 other kinds).",
         TB + "The reference protocol is a frozen reading of the doc comments in src/sign.rs; the reply alphabet abstracts addresses to own/foreign, sound because addresses are only compared for equality with self.address.", "DESIGN.md 4 C10"),
 "C11": ("proof", "invariant checks on the extracted controller automaton (A8), reference-free",
         "Per node of the extracted automata: every addressed message carries self.address; each foreign-address reply has the same successors as an unrecognised reply; a bus error leads only to Err(Bus); configure/send_pages continue past a transfer only on ReportState(own, received) and retry only on ReportState(own, failed); no cycle through a transfer request and at most three on any path; success unreachable once the success edges are removed.",
         TB, "DESIGN.md 4 C11"),
 "C12": ("proof", "A4 panic-site inventory over enumerated MIR paths with discharge rules D1-D6",
         "Every path of VirtualSign::process_message (all handlers and the core functions they reach, inlined) and of the bus loop is enumerated over fully symbolic sign state and message at both logging extremes, plus every hand-written fmt impl reachable through formatting arguments. Each panic-capable construct on a path (Assert terminators, unwrap/expect, range indexing, integer sum, explicit panics, unknown externals) must be discharged by path constraints, interval analysis over type ranges, the Page invariant (C07) or a bounded-sum rule; anything else is a finding.",
         TB + "Page invariant len(bytes)=total_bytes(w,h)>=16 (C07 + A5) and lemma L3; allocation failure out of scope; derive-generated fmt impls trusted.", "DESIGN.md 4 C12, 3 A4"),
 "C13": ("proof", "A1 decision-table extraction of the sign dispatcher + comparison with a reference machine",
         "VirtualSign::process_message with all handlers inlined is summarised per path as (conditions) -> (reply, field writes); the table is compared with the reference sign machine (DESIGN.md Appendix B, sa/p_vsign.py ref_step) on every abstract vector (13 states x message classes x operation x own/foreign x offset/length/family/count/buffer conditions x flip style), at both logging extremes; reassembly writers are checked on the same paths.",
         TB + "The reference machine is a frozen reading of the property text and the State/Operation docs.", "DESIGN.md 4 C13"),
 "C14": ("proof", "A1/A2 guard-completeness, write-gating and reply-address rules on the extracted sign table; loop-shape rule on the bus",
         "Reference-free: every path that replies or writes for an addressed kind took the address-equality edge; replies carry self.address; every path that writes for an unaddressed kind is restricted to the receiving states; the bus loop offers the message to signs in order and returns the first reply unchanged.",
         TB + "Non-interference over interleavings follows from these per-step facts (at most one sign satisfies the address atom; unaddressed kinds only touch receiving signs).", "DESIGN.md 4 C14"),
 "C15": ("proof", "A2 effect-order / must-pass rules over enumerated MIR paths of Frame::read and Frame::write",
         "On the polymorphic MIR of Frame::read<R> every path is enumerated: the reader flows only into BufReader::with_capacity(1, ..); that wrapper is used exactly once, by read_until(b'\\n', fresh Vec); an Err becomes FrameError::Io; the result is from_bytes of that untouched Vec. Frame::write<W>: the writer only sees one write_all(to_bytes_with_newline()), whose result is never dropped.",
         TB + "std contracts: BufReader never buffers beyond its capacity, read_until consumes through the delimiter and retries Interrupted, write_all loops over short writes.", "DESIGN.md 4 C15"),
 "C16": ("proof", "A2 effect-order rules + A1 classification table on SerialSignBus::process_message",
         "Every path of <SerialSignBus<P> as SignBus>::process_message is enumerated (both logging extremes) with Frame::write/read and the From impls as protocol-level units; rules: first port effect is the write of Frame::from(message); a write error returns with no further port effect; exactly one read iff the message kind is Hello/QueryState/RequestOperation; results are never dropped; Ok(Some(Message::from(frame))) / Ok(None).",
         TB + "Frame contents (C01, C04, C05) are decided by running those rule sets as part of this check.", "DESIGN.md 4 C16"),
 "C17": ("other", "A2 bridge-shape rules on Odk::process_message + cross-table agreement (bridge clause only; rest by composition)",
         "Decides two clauses, not the headline: (a) the ODK bridge reads one frame first, reports a decode error as Communication before any bus call, forwards Message::from(frame) to the bus, maps a bus error to OdkError::Bus and writes Frame::from(m) back iff the bus returned Some(m); (b) the serial bus's reply classification, the virtual sign's reply table and the controller's expectations agree on which kinds are answered. End-to-end equality of sign state is the composition of C01, C04, C05, C15, C16 with (a),(b) (lemma L5), not re-derived per run.",
         TB + "Lemma L5 (DESIGN.md section 6).", "DESIGN.md 4 C17"),
 "C18": ("proof", "A2 effect-order rules on thread::sleep placement + folded Duration constants",
         "On every path of SerialSignBus::process_message the thread::sleep calls are located relative to the write, the read and the reply decoding: >= 30 ms directly after writing a SendData frame and for no other kind; >= 100 ms after decoding ReportState(PageLoadInProgress|PageShowInProgress) and for no other reply; no sleep before the write or on error paths; no other blocking call.",
         TB + "thread::sleep(d) blocks at least d. Lower bounds only.", "DESIGN.md 4 C18"),
 "C20": ("proof", "A2 must-call and error-discipline rules on configure_port, its settings closure and both constructors",
         "Every Ok path of the closure passed to SerialPort::reconfigure calls the five setters with Baud19200/Bits8/ParityNone/Stop1/FlowNone on the closure's settings argument, unconditionally; no Result is dropped; configure_port applies the caller's timeout after a successful reconfigure and propagates each error; SerialSignBus::try_new / Odk::try_new pass a non-zero constant timeout and construct their object only on the Ok edge.",
         TB + "serial-core: reconfigure = read settings, run closure, write settings back iff Ok.", "DESIGN.md 4 C20"),
 "C19": ("proof", "A1 table extraction + constant evaluation + cross-table relation",
         "to_bytes / dimensions / from_bytes are extracted as tables with rustc-evaluated constants; their mutual consistency, the height/width/bits-per-column relations inside each block, the virtual sign's derivation evaluated on each block, and from_bytes' length/acceptance conditions are checked for all 11 types and all paths.",
         TB, "DESIGN.md 4 C19"),
}
REASONS = {}
# clauses of a property that are another property's subject are decided by running that rule set as part of this check
INCLUDES = {
    "C11": "Which replies are disallowed at a step is the reference protocol: the fail-stop clause is decided by running C10's step rule here too, as C11.failstop(..).",
    "C01": "The stream form of the two encodings (Frame::write / Frame::read) is decided here too, by running C15's rule set as C01.stream(..).",
    "C02": "Also runs C15's rules on Frame::read (the second decoding entry point hands the unmodified line to from_bytes), as C02.read(..).",
    "C05": "The frame<->bytes leg is decided by running C01's codec rule set as part of this check, as C05.wire(..).",
    "C08": "The data plane is decided by running the component rule sets as part of this check: C09.O2-O4 (chunking), C13.O2 (reassembly), C07.O1/O3 (page length), as C08.data(..); that the bus hands every message to the sign and returns its reply (C14.O4) and that no sign handler panics (C12) are legs of the composition too, as C08.bus(..) / C08.total(..). The sign-type block (C19 tables) is a leg too, as C08.type(..). Controller and sign are extracted at both extremes of the log level.",
    "C13": "What a complete page of the configured size is (Page::from_bytes / Page::new, C07.O1/O3) is decided here too, as C13.page(..); the size a sign derives from a configuration block (C19.O3) as C13.dims(..).",
    "C06": "The Page length invariant the in-bounds panic freedom rests on is decided here too, by running C07.O1/O3 (constructors) as C06.layout(..).",
    "C09": "What an item is lies outside the transfer routine: page bytes (C07.O1/O3) and the configuration block (C19.O1) are decided here too, as C09.page(..) / C09.block(..).",
    "C10": "The automaton abstracts the data messages; their contents, offsets and count (C09, with C07.O1/O3 and C19.O1) are decided here too, as C10.data(..).",
    "C16": "Frame::write / Frame::read themselves (exactly the frame's encoding with CRLF, exactly one line, errors surfaced) are decided by running C15's rule set here too, as C16.io(..); the codec (C01) and the message mapping (C04, C05) as C16.codec(..) / C16.msg(..).",
    "C18": "The units the pacing rule treats as atomic are decided here too: Frame::write / Frame::read (C15) as C18.io(..), the frame -> message table that says which replies are in-progress reports (C04) as C18.msg(..); plus a rule that Frame::write has no fallible step after the write.",
    "C19": "That digesting a block does not panic inside the sign-type code (hand-written fmt impls included) is C12's inventory restricted to that code, run here as C19.total(..).",
    "C17": "The byte-stream leg (Frame::read / Frame::write) is decided by running C15's rule set here too, as C17.io(..).",
}
# the S-rules (DESIGN.md section 3, A9): the entry-point set of every role a property is reached through is closed
sys.path.insert(0, os.path.join(HERE, "sa"))
import surface
checks = []
for pid, (lvl, tech, text, note, ref) in CLAIMED.items():
    if pid in INCLUDES:
        text = text + " " + INCLUDES[pid]
    roles = surface.ROLEMAP.get(pid, ())
    if roles:
        text = text + " Entry points: every externally reachable function from which the protected state or calls of the roles %s can be reached is one the rule set analyses, or a transparent forwarder to one (%s.S; DESIGN.md A9)." % (", ".join(roles), pid)
        tech = tech + "; A9 closed entry-point set over effective visibility and the resolved call graph"
    checks.append({"property_id": pid, "quick_cmd": "./check %s --tier quick" % pid, "thorough_cmd": "./check %s --tier thorough" % pid,
                   "evidence_file": "evidence/%s.json" % pid, "replay_cmd_template": "./check %s --tier quick  # the replay file {path} names the construct and rule" % pid,
                   "engine": "mirfacts+sa", "level_claimed": {"category": lvl, "text": text, "design_ref": ref}, "level_note": note, "technique": tech})
na = [{"property_id": p["id"], "reason": REASONS.get(p["id"], "check under construction in this session (engine for it not finished yet); see DESIGN.md section 4")} for p in props if p["id"] not in CLAIMED]
m = {"version": 1, "setup_cmd": "cd /verif && bash bin/setup.sh",
     "hooks": {"guard": "flipdot_verif", "enable": "no hooks: the checks read /repo's sources through a rustc driver; nothing in /repo is instrumented",
               "baseline_off_cmd": "cd /repo && cargo test --workspace --no-fail-fast --offline", "source_commits": [], "add_only": True},
     "engines": [{"name": "mirfacts", "path": "tools/mirfacts", "serves_properties": [p["id"] for p in props], "kind_free_text": "rustc_private driver dumping MIR/ADTs/constants/resolved callees as JSON"},
                 {"name": "sa", "path": "sa", "serves_properties": [p["id"] for p in props], "kind_free_text": "path-sensitive abstract evaluator over MIR + per-property rule modules (python3 stdlib)"}],
     "checks": checks, "not_applicable": na,
     "notes": "Static analysis only (no flipdot code is executed). fix: commits in /repo are listed in known_findings.json."}
json.dump(m, open(os.path.join(HERE, "MANIFEST.json"), "w"), indent=1)
print("claimed:", sorted(CLAIMED), "not_applicable:", len(na))
