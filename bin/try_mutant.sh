#!/bin/bash
# usage: try_mutant.sh <patch.diff> <ID> [<ID>...]   -- applies the patch to a scratch copy of /repo and runs the checks against it
set -u
PATCH="$(readlink -f "$1")"; shift
HERE="$(cd "$(dirname "$0")/.." && pwd)"
TMP="$(mktemp -d /tmp/mut.XXXXXX)"
trap 'rm -rf "$TMP"' EXIT
rsync -a --exclude target --exclude .git /repo/ "$TMP/"
( cd "$TMP" && patch -p1 -s < "$PATCH" ) || { echo "PATCH DOES NOT APPLY"; exit 9; }
rc=0
for id in "$@"; do
  VERIF_NO_EVIDENCE=1 python3 "$HERE/sa/run.py" "$id" --repo "$TMP" || rc=$?
done
exit $rc
