#!/bin/bash
# usage: scratch.sh <patch.diff>  -- prints the path of a scratch copy of /repo with the patch applied (caller removes it)
set -e
T=$(mktemp -d /tmp/scr.XXXXXX)
rsync -a --exclude target --exclude .git /repo/ "$T/"
patch -p1 -s -d "$T" -i "$(readlink -f "$1")"
echo "$T"
