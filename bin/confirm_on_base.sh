#!/bin/bash
# usage: confirm_on_base.sh <Tnn> <A|B> <property> <base-equivalent-name>
# Confirms a breaking change that was made on top of a behaviour-preserving refactoring: scratch copy of /repo + base patch;
# (1) suite passes with the change, (2) demo fails with it, (3) demo passes on the refactored base alone.
set -u
ID=$1; V=$2; PID=$3; BASE=$4
SRC=/tmp/agents/$ID-out/$V
WT=/tmp/confirmb-$ID-$V
TGT=/tmp/confirm-target
rm -rf $WT; mkdir -p $WT
trap 'rm -rf $WT' EXIT
rsync -a --exclude target --exclude .git /repo/ $WT/
patch -p1 -s -d $WT -i /verif/selftest/equivalents/$BASE.diff || { echo "base does not apply"; exit 9; }
DEST=$(grep -oE '(libs/[a-z]+/)?tests/[A-Za-z0-9_]+\.rs' $SRC/notes.md | head -1)
[ -z "$DEST" ] && { echo "cannot find demo destination in notes.md"; exit 8; }
PKG=""; case "$DEST" in libs/core/*) PKG="-p flipdot-core";; libs/serial/*) PKG="-p flipdot-serial";; libs/testing/*) PKG="-p flipdot-testing";; *) PKG="-p flipdot";; esac
TNAME=$(basename $DEST .rs)
cd $WT
export CARGO_NET_OFFLINE=true CARGO_TARGET_DIR=$TGT
patch -p1 -s -i $SRC/patch.diff || { echo "patch does not apply"; exit 7; }
SUITE=$(cargo test --workspace --offline 2>&1 | grep -E '^test result|error(\[|:)' )
if echo "$SUITE" | grep -qE 'FAILED|error'; then echo "SUITE FAILS WITH CHANGE:"; echo "$SUITE" | grep -E 'FAILED|error' | head; exit 6; fi
NPASS=$(echo "$SUITE" | grep -oE '[0-9]+ passed' | awk '{s+=$1} END{print s}')
mkdir -p $(dirname $DEST); cp $SRC/demo.rs $DEST
WITH=$(cargo test $PKG --test $TNAME --offline 2>&1 | grep -E '^test result|^error' | head -3)
patch -R -p1 -s -i $SRC/patch.diff || { echo "cannot revert the change"; exit 7; }
find . -name '*.rs' -newer Cargo.toml -exec touch {} + 2>/dev/null
WITHOUT=$(cargo test $PKG --test $TNAME --offline 2>&1 | grep -E '^test result|^error' | head -3)
cd /
echo "suite with change: $NPASS passed, 0 failed"; echo "demo with change:    $WITH"; echo "demo without change: $WITHOUT"
if echo "$WITH" | grep -q 'FAILED' && echo "$WITHOUT" | grep -q 'test result: ok' ; then
  D=/verif/seeded/$PID-on-$BASE-$V; mkdir -p $D; cp $SRC/patch.diff $SRC/demo.rs $SRC/notes.md $D/
  python3 - "$PID" "$V" "$DEST" "$PKG" "$TNAME" "$NPASS" "$WITH" "$WITHOUT" "$BASE" "$D" <<'PY'
import sys,json
PID,V,DEST,PKG,TNAME,NPASS,WITH,WITHOUT,BASE,D=sys.argv[1:11]
json.dump({"breaks_property":PID,"base":BASE,"origin":"independent sub-agent given only the property text and a scratch copy of the repository with the behaviour-preserving refactoring selftest/equivalents/%s.diff already applied"%BASE,
 "demo_location":DEST,"demo_command":"cargo test %s --test %s --offline"%(PKG,TNAME),
 "confirmed":{"suite_with_change":"%s passed, 0 failed"%NPASS,"demo_with_change":WITH,"demo_without_change":WITHOUT},
 "needs_to_manifest":"see notes.md"},open(D+"/meta.json","w"),indent=1)
PY
  echo "CONFIRMED -> $D"
else echo "NOT CONFIRMED"; exit 5; fi
