"""C15, C16, C17, C18, C20 — effect-order / must-pass rules (analysis A2) over enumerated MIR paths."""
from mireval import Evaluator, Unsupported, fmt_term, mk_int
from models import Models
from facts import loc
from p_msgmap import norm, norm_cons, known_val
from common import at_log_levels
import a2

SSB = "flipdot_serial::serial_sign_bus::SerialSignBus"
ODK = "flipdot_testing::odk::Odk"
MSG = a2.MSG
STATE = "flipdot_core::message::State"


def one(lst, what):
    if len(lst) != 1:
        raise Unsupported("anchor %s: found %d" % (what, len(lst)))
    return lst[0]


def variant_names(prog, adt, dom):
    vs = prog.adts[adt]["variants"]
    allv = {(v["discr"] if v["discr"] is not None else v["idx"]): v["name"] for v in vs}
    if dom is None:
        return frozenset(allv.values())
    if dom[0] == "in":
        return frozenset(allv[d] for d in dom[1] if d in allv)
    return frozenset(n for d, n in allv.items() if d not in dom[1])


def is_port_ref(t, cell="*self", field=0):
    return t[0] == "ref" and t[1][0] == "heap" and t[1][1] == cell and len(t[1][2]) >= 1 and t[1][2][0][0] == "field" and t[1][2][0][1] == field


def touches(t, cell, field):
    return a2.mentions(t, lambda x: isinstance(x, tuple) and len(x) == 3 and x[0] == "ref" and isinstance(x[1], tuple) and x[1][:2] == ("heap", cell)
                       and (field is None or (len(x[1][2]) >= 1 and x[1][2][0][0] == "field" and x[1][2][0][1] == field)))


def calls_of(units, p):
    return [(a2.classify_call(units, e), e) for e in p.trace if e[0] == "call"]


def result_shape(v):
    """('Ok', inner) / ('Err', inner)"""
    if v[0] == "adt" and v[3] in ("Ok", "Err"):
        return v[3], v[4][0]
    return None, v


def err_source(t):
    """strip From conversions around an error term"""
    while t[0] == "app" and t[1].startswith("from:") and len(t[2]) == 1:
        t = t[2][0]
    while t[0] == "adt" and len(t[4]) == 1 and t[3] in ("Io", "Bus", "Communication"):
        t = t[4][0]
        while t[0] == "app" and t[1].startswith("from:") and len(t[2]) == 1:
            t = t[2][0]
    return t


def is_err_of(t, ret):
    """t is (a conversion of) the Err payload of call result `ret`"""
    s = norm(err_source(t))
    want = norm(("proj", ("proj", ret, ("downcast", 1, "Err")), ("field", 0, "?")))
    return s == want


def is_ok_of(t, ret):
    return norm(t) in (norm(("proj", ("proj", ret, ("downcast", 0, "Ok")), ("field", 0, "?"))), ("unwrap", norm(ret)))


# ======================================================================================
# C16 / C18 : SerialSignBus::process_message
# ======================================================================================
def serial_bus_paths(prog, log_on):
    units = a2.Units(prog)
    fns = [f for f in prog.fns.values() if f.get("item") == "process_message" and (f.get("impl") or {}).get("self_adt") == SSB and (f.get("impl") or {}).get("trait") == "flipdot_core::sign_bus::SignBus"]
    fn = one(fns, "impl SignBus for SerialSignBus")
    for grp, nm in ((units.frame_write, "Frame::write"), (units.frame_read, "Frame::read"), (units.msg_to_frame, "From<Message> for Frame"), (units.frame_to_msg, "From<Frame> for Message")):
        one(grp, nm)
    ni = units.names(units.frame_write, units.frame_read, units.msg_to_frame, units.frame_to_msg)
    ev = Evaluator(prog, Models(prog), log_on=log_on, no_inline=lambda f: f["path"] in ni)
    paths = ev.run(fn)
    a = prog.adts[SSB]
    port_i = [f["name"] for f in a["variants"][0]["fields"]].index("port")
    return units, fn, ev, paths, port_i


@at_log_levels("flipdot_core", "flipdot_serial")
def run_c16(chk, prog):
    chk.notes.append("A2: every path of <SerialSignBus<P> as SignBus>::process_message is enumerated with Frame::write / Frame::read / the two From impls kept as "
                     "protocol-level units (each analysed on its own: C15, C01, C04/C05); rules over the ordered port effects of each path. The units Frame::write and "
                     "Frame::read ('exactly that frame's encoding with CRLF', 'exactly one line', errors surfaced) are C15's subject; its rule set is run here too as C16.io(..).")
    n = chk.include("C16.io", run_c15, prog)
    chk.floor("C16.io", "obligations on Frame::write / Frame::read", n, 15)
    # "that message's frame encoding" / "its decoding": the frame <-> bytes codec (C01) and the message <-> frame mapping (C04, C05)
    import p_frame, p_msgmap
    n = chk.include("C16.codec", p_frame.run_c01, prog)
    n += chk.include("C16.msg", p_msgmap.run_c04, prog)
    n += chk.include("C16.msg", p_msgmap.run_c05, prog, keep=lambda r: not r.startswith("C05.wire"))
    chk.floor("C16.codec", "obligations of the codec and message-mapping legs (C01, C04, C05)", n, 200)
    kinds_read = set()
    kinds_noread = set()
    for log_on in (False, True):
        units, fn, ev, paths, port_i = serial_bus_paths(prog, log_on)
        tag = " (logging on)" if log_on else ""
        where = loc(fn["span"])
        msgsym = norm(("sym", "message", "?"))
        nret = 0
        for p in paths:
            if p.kind != "return":
                chk.ob("C16.O5", "process_message has no panicking path%s (%s)" % (tag, p.info), False, key="ssb:panic:%s" % p.info, where=where)
                continue
            nret += 1
            cs = calls_of(units, p)
            port_effects = [(r, e) for r, e in cs if any(touches(x, "*self", port_i) for x in e[2])]
            roles = [r for r, e in port_effects]
            kinds = variant_names(prog, MSG, norm_cons(p.cons).get(("discr", msgsym)))
            kdesc = "/".join(sorted(kinds)) if len(kinds) <= 4 else "%d kinds" % len(kinds)
            # O1 first port effect is Frame::write(&Frame::from(message), &mut self.port)
            conv = [e for r, e in cs if r == "Frame::from(Message)"]
            ok1 = bool(port_effects) and roles[0] == "Frame::write" and len(conv) >= 1 and norm(conv[0][2][0]) == msgsym
            if ok1:
                w = port_effects[0][1]
                ok1 = w[6][0] is not None and norm(w[6][0]) == norm(conv[0][3]) and is_port_ref(w[2][1], "*self", port_i)
            chk.ob("C16.O1", "first port effect is Frame::write(&Frame::from(message), &mut self.port) [%s]%s" % (kdesc, tag), ok1, key="ssb:first-effect", where=where,
                   detail="port effects on the path: %s" % roles)
            if not ok1:
                continue
            wret = port_effects[0][1][3]
            wd = known_val(norm_cons(p.cons), ("discr", norm(wret)))
            rk, rv = result_shape(p.value)
            chk.ob("C16.O2", "the result of Frame::write is examined, never dropped%s" % tag, wd is not None, key="ssb:write-result-dropped", where=where)
            if wd is None:
                continue
            if wd == 1:
                ok2 = len(port_effects) == 1 and rk == "Err" and is_err_of(rv, wret)
                chk.ob("C16.O2", "write failure returns that error with no further port effect%s" % tag, ok2, key="ssb:write-err", where=where, detail="effects %s, returns %s" % (roles, fmt_term(p.value)))
                continue
            reads = [(r, e) for r, e in port_effects[1:] if r == "Frame::read"]
            others = [(r, e) for r, e in port_effects[1:] if r != "Frame::read"]
            chk.ob("C16.O5", "no port effect other than one write and at most one read%s" % tag, not others and len(reads) <= 1, key="ssb:other-port-effects", where=where, detail=str(roles))
            writes_mem = [e for e in p.trace if e[0] in ("write", "store")]
            chk.ob("C16.O5", "no direct write to the bus object%s" % tag, not writes_mem, key="ssb:mem-writes", where=where)
            if reads:
                kinds_read |= kinds
                r = reads[0][1]
                okr = is_port_ref(r[2][0], "*self", port_i)
                rd = known_val(norm_cons(p.cons), ("discr", norm(r[3])))
                chk.ob("C16.O4", "the result of Frame::read is examined, never dropped%s" % tag, rd is not None, key="ssb:read-result-dropped", where=where)
                if rd == 1:
                    ok4 = rk == "Err" and is_err_of(rv, r[3])
                    chk.ob("C16.O4", "read failure / undecodable reply returns that error%s" % tag, ok4 and okr, key="ssb:read-err", where=where, detail=fmt_term(p.value))
                else:
                    conv2 = [e for rr, e in cs if rr == "Message::from(Frame)"]
                    ok4 = (rk == "Ok" and rv[0] == "adt" and rv[3] == "Some" and len(conv2) == 1 and norm(rv[4][0]) == norm(conv2[0][3]) and is_ok_of(conv2[0][2][0], r[3]))
                    chk.ob("C16.O4", "a read frame is returned as Ok(Some(Message::from(frame)))%s" % tag, ok4 and okr, key="ssb:read-ok", where=where, detail=fmt_term(p.value))
            else:
                kinds_noread |= kinds
                ok4 = rk == "Ok" and rv[0] == "adt" and rv[3] == "None"
                chk.ob("C16.O4", "no read: returns Ok(None) [%s]%s" % (kdesc, tag), ok4, key="ssb:noread-ret", where=where, detail=fmt_term(p.value))
            chk.sample({"kinds": sorted(kinds), "port_effects": roles, "returns": fmt_term(p.value)[:80]})
        chk.floor("C16", "returning paths%s" % tag, nret, 4)
        chk.extra["paths" + tag] = len(paths)
    want = {"Hello", "QueryState", "RequestOperation"}
    allk = set(v["name"] for v in prog.adts[MSG]["variants"])
    chk.ob("C16.O6", "a reply is read exactly for Hello, QueryState and RequestOperation (read for %s)" % sorted(kinds_read), kinds_read == want, key="ssb:read-kinds", where=where)
    chk.ob("C16.O6", "no reply is read for the other %d kinds (%s)" % (len(kinds_noread), sorted(kinds_noread)), kinds_noread == allk - want, key="ssb:noread-kinds", where=where)
    chk.ob("C16.O3", "the read decision is a function of the message kind alone (no kind both read and not read)", not (kinds_read & kinds_noread), key="ssb:read-nondeterministic", where=where)
    chk.note_analysed("functions", [fn["name"]] + sorted(ev.stats["inlined"]))


@at_log_levels("flipdot_core", "flipdot_serial")
def run_c18(chk, prog):
    chk.notes.append("A2: on every path of SerialSignBus::process_message the thread::sleep effects are located relative to the write, the read and the reply "
                     "conversion; durations are folded from Duration::from_* constants. Lower bounds only (longer delays are accepted).")
    # the bus is analysed with Frame::write / Frame::read / the two conversions as units: "written" means Frame::write returned Ok
    # having done nothing but write_all(encoding) (C15), and which replies count as in-progress reports is the frame -> message
    # table (C04); both are legs of this property
    import p_msgmap
    n = chk.include("C18.io", run_c15, prog)
    n += chk.include("C18.msg", p_msgmap.run_c04, prog)
    chk.floor("C18.units", "obligations on the units the pacing rule treats as atomic (C15, C04)", n, 60)
    # the pause follows `frame.write(..)?`: if Frame::write could fail after the frame is completely out (a fallible step after
    # write_all), a written data chunk would be followed by an early return without the pause
    units0 = a2.Units(prog)
    wr = one(units0.frame_write, "Frame::write")
    wev = Evaluator(prog, Models(prog), no_inline=lambda f: f["path"] in units0.names(units0.to_bytes_nl))
    after = set()
    nwp = 0
    for p in wev.run(wr):
        if p.kind != "return":
            continue
        nwp += 1
        cs = [e for e in p.trace if e[0] == "call"]
        uw = [e for e in cs if any(a2.mentions(x, lambda t: t == ("heap", "*writer", ())) for x in e[2])]
        seen_write = False
        for e in uw:
            if seen_write:
                after.add(e[1].split("::")[-1])
            if e[1] == "std::io::Write::write_all":
                seen_write = True
    chk.ob("C18.O1", "Frame::write has no fallible step after write_all: once the frame is out it returns Ok, so the pause that follows `frame.write(..)?` is reached", not after,
           key="write:tail-step", where=loc(wr["span"]), detail="after write_all: %s" % sorted(after))
    chk.floor("C18.O1", "Frame::write returning paths examined for a step after the write", nwp, 2)
    n_send = n_recv = 0
    for log_on in (False, True):
        units, fn, ev, paths, port_i = serial_bus_paths(prog, log_on)
        tag = " (logging on)" if log_on else ""
        where = loc(fn["span"])
        msgsym = norm(("sym", "message", "?"))
        for p in paths:
            if p.kind != "return":
                continue
            cs = calls_of(units, p)
            roles = [r for r, e in cs]
            cons = norm_cons(p.cons)
            kinds = variant_names(prog, MSG, cons.get(("discr", msgsym)))
            if "Frame::write" not in roles:
                continue
            wi = roles.index("Frame::write")
            wret = cs[wi][1][3]
            if known_val(cons, ("discr", norm(wret))) == 1:
                sl = [e for r, e in cs if r == "sleep"]
                chk.ob("C18.O3", "no sleep on the write-error path%s" % tag, not sl, key="ssb:sleep-on-error", where=where)
                continue
            ri = roles.index("Frame::read") if "Frame::read" in roles else len(roles)
            pre = [e for r, e in cs[:wi] if r == "sleep"]
            mid = [e for r, e in cs[wi + 1:ri] if r == "sleep"]
            ci = roles.index("Message::from(Frame)") if "Message::from(Frame)" in roles else None
            post_between = [e for r, e in cs[ri + 1:(ci if ci is not None else len(cs))] if r == "sleep"]
            post = [e for r, e in cs[(ci + 1) if ci is not None else len(cs):] if r == "sleep"]
            chk.ob("C18.O2", "no sleep before the frame is written%s" % tag, not pre, key="ssb:sleep-before-write", where=where)
            chk.ob("C18.O2", "no sleep between reading the reply and decoding it%s" % tag, not post_between, key="ssb:sleep-before-decode", where=where)
            kdesc = "/".join(sorted(kinds)) if len(kinds) <= 3 else "%d kinds" % len(kinds)
            if kinds == {"SendData"}:
                n_send += 1
                d = sum((a2.duration_ms(e[2][0]) or 0) for e in mid)
                okd = all(a2.duration_ms(e[2][0]) is not None for e in mid) and d >= 30
                chk.ob("C18.O1", "after writing a SendData frame the bus sleeps >= 30 ms before anything else (sleeps %s ms)%s" % (d, tag), okd, key="ssb:send-delay", where=where,
                       detail="sleep arguments: %s" % [fmt_term(e[2][0]) for e in mid])
            elif "SendData" in kinds:
                chk.unproven("C18.O1", "ssb:send-kind-mixed", "the send delay is decided on a path that mixes SendData with other kinds (%s)" % sorted(kinds), where)
            else:
                chk.ob("C18.O1", "no send delay for %s%s" % (kdesc, tag), not mid, key="ssb:send-delay-extra", where=where, detail=str([fmt_term(e[2][0]) for e in mid]))
            if ci is not None:
                reply = norm(cs[ci][1][3])
                rk = variant_names(prog, MSG, cons.get(("discr", reply)))
                st_t = None
                for v in prog.adts[MSG]["variants"]:
                    if v["name"] == "ReportState":
                        st_t = ("discr", norm(("proj", ("proj", reply, ("downcast", v["idx"], "ReportState")), ("field", 1, "?"))))
                sts = variant_names(prog, STATE, cons.get(st_t))
                inprog = {"PageLoadInProgress", "PageShowInProgress"}
                d = sum((a2.duration_ms(e[2][0]) or 0) for e in post)
                if rk == {"ReportState"} and sts <= inprog:
                    n_recv += 1
                    okd = all(a2.duration_ms(e[2][0]) is not None for e in post) and d >= 100
                    chk.ob("C18.O1", "after receiving ReportState(%s) the bus sleeps >= 100 ms before returning (sleeps %s ms)%s" % ("/".join(sorted(sts)), d, tag), okd,
                           key="ssb:recv-delay:%s" % "/".join(sorted(sts)), where=where)
                elif rk == {"ReportState"} and (sts & inprog):
                    chk.unproven("C18.O1", "ssb:recv-mixed", "the receive delay is decided on a path mixing in-progress and other states (%s)" % sorted(sts), where)
                elif "ReportState" in rk and (sts & inprog) and d < 100:
                    # the path does not look at the reply (closely enough), so an in-progress report takes it too - without the hold
                    chk.ob("C18.O1", "a page load/show in-progress report answering %s is held for >= 100 ms%s" % (kdesc, tag), False, key="ssb:recv-delay-missing:%s" % kdesc, where=where,
                           detail="a path that an in-progress report can take returns after sleeping %d ms" % d)
                else:
                    chk.ob("C18.O1", "no receive delay for other replies%s" % tag, not post, key="ssb:recv-delay-extra", where=where,
                           detail="reply kinds %s states %s sleeps %s" % (sorted(rk)[:4], sorted(sts)[:4], [fmt_term(e[2][0]) for e in post]))
            else:
                chk.ob("C18.O2", "no sleep after the write other than the send delay when no reply is read%s" % tag, not post and not post_between, key="ssb:sleep-noreply", where=where)
            # O3: no other blocking API
            blocking = [e[1] for r, e in cs if (e[1].startswith("std::thread::") or "park" in e[1] or "std::time::Instant" in e[1] or "recv" in e[1].split("::")[-1]) and r != "sleep"]
            chk.ob("C18.O3", "no other blocking / timing call%s" % tag, not blocking, key="ssb:blocking", where=where, detail=str(blocking))
    # the in-progress states must each get a delay path (the match must not lose one)
    chk.floor("C18.O1", "SendData delay paths", n_send, 2)
    chk.floor("C18.O1", "in-progress receive delay paths", n_recv, 2)
    covered = set()
    for log_on in (False,):
        units, fn, ev, paths, port_i = serial_bus_paths(prog, log_on)
        for p in paths:
            cs = calls_of(units, p)
            roles = [r for r, e in cs]
            if "Message::from(Frame)" in roles and any(r == "sleep" for r, e in cs[roles.index("Message::from(Frame)"):]):
                reply = norm(cs[roles.index("Message::from(Frame)")][1][3])
                for v in prog.adts[MSG]["variants"]:
                    if v["name"] == "ReportState":
                        st_t = ("discr", norm(("proj", ("proj", reply, ("downcast", v["idx"], "ReportState")), ("field", 1, "?"))))
                        covered |= variant_names(prog, STATE, norm_cons(p.cons).get(st_t))
    chk.ob("C18.O1", "both in-progress states are delayed (delayed: %s)" % sorted(covered), covered == {"PageLoadInProgress", "PageShowInProgress"}, key="ssb:recv-delay-states", where=loc(fn["span"]))
    chk.assumptions.append("std::thread::sleep(d) blocks for at least d (std docs)")
    chk.note_analysed("functions", [fn["name"]] + sorted(ev.stats["inlined"]))


# ======================================================================================
# C20 : configure_port + constructors
# ======================================================================================
SETTERS = {
    "set_baud_rate": ("serial_core::BaudRate", "Baud19200"),
    "set_char_size": ("serial_core::CharSize", "Bits8"),
    "set_parity": ("serial_core::Parity", "ParityNone"),
    "set_stop_bits": ("serial_core::StopBits", "Stop1"),
    "set_flow_control": ("serial_core::FlowControl", "FlowNone"),
}


@at_log_levels("flipdot_serial", "flipdot_testing")
def run_c20(chk, prog):
    chk.notes.append("A2 must-call / error-discipline: the closure passed to SerialPort::reconfigure is analysed path by path (every Ok path calls the five setters with the 19200-8N1-no-flow "
                     "constants on the closure's settings argument); configure_port and both constructors propagate every error and build their object only on the Ok edge.")
    units = a2.Units(prog)
    cp = one(units.configure_port, "configure_port")
    where = loc(cp["span"])
    models = Models(prog)
    closures = prog.closures_of(cp["path"])
    ev = Evaluator(prog, models)
    paths = ev.run(cp)
    nret = 0
    closure_defs = set()
    for p in paths:
        if p.kind != "return":
            chk.ob("C20.O2", "configure_port has no panicking path", False, key="cp:panic", where=where)
            continue
        nret += 1
        cs = [e for e in p.trace if e[0] == "call"]
        names = [e[1].split("::")[-1] for e in cs]
        cons = norm_cons(p.cons)
        rk, rv = result_shape(p.value)
        port = norm(("sym", "*port", "?"))
        okport = all(e[2][0][0] == "ref" and e[2][0][1][:2] == ("heap", "*port") for e in cs if e[1].split("::")[-1] in ("reconfigure", "set_timeout"))
        chk.ob("C20.O2", "reconfigure / set_timeout act on the caller's port", okport, key="cp:port-arg", where=where)
        if not names or names[0] != "reconfigure":
            chk.ob("C20.O1", "configure_port starts with port.reconfigure(..)", False, key="cp:no-reconfigure", where=where, detail=str(names))
            continue
        rec = cs[0]
        cl = rec[6][1] if len(rec[6]) > 1 else None
        if cl is not None and cl[0] == "closure":
            closure_defs.add(cl[1])
        elif cl is not None and cl[0] == "fn" and cl[1][0] in prog.fns:
            closure_defs.add(cl[1][0])       # a named private function passed instead of a closure literal
        else:
            chk.unproven("C20.O1", "cp:closure-arg", "the argument of reconfigure is not a closure literal (%s)" % (fmt_term(cl) if cl else "?"), where)
        d0 = known_val(cons, ("discr", norm(rec[3])))
        if d0 == 1:
            # (`refused => refused`: handing back the failed result itself is returning its error)
            ok = names == ["reconfigure"] and ((rk == "Err" and is_err_of(rv, rec[3])) or norm(p.value) == norm(rec[3]))
            chk.ob("C20.O2", "a reconfigure error is returned and nothing else is done", ok, key="cp:reconfigure-err", where=where, detail="%s -> %s" % (names, fmt_term(p.value)))
            continue
        if names[1:2] != ["set_timeout"]:
            chk.ob("C20.O3", "after a successful reconfigure the timeout is applied", False, key="cp:no-timeout", where=where, detail=str(names))
            continue
        st = cs[1]
        okt = norm(st[2][1]) == norm(("sym", "timeout", "?"))
        chk.ob("C20.O3", "set_timeout receives the caller's timeout unchanged", okt, key="cp:timeout-arg", where=where, detail=fmt_term(st[2][1]))
        d1 = known_val(cons, ("discr", norm(st[3])))
        if d1 is None and norm(p.value) == norm(st[3]) and d0 == 0 and len(names) == 2:
            chk.ob("C20.O2", "the result of set_timeout is returned as it is (its error, or Ok(()))", True, where=where)
            continue
        if d1 == 1:
            ok = ((rk == "Err" and is_err_of(rv, st[3])) or norm(p.value) == norm(st[3])) and len(names) == 2
            chk.ob("C20.O2", "a set_timeout error is returned", ok, key="cp:timeout-err", where=where, detail=fmt_term(p.value))
        else:
            ok = (rk == "Ok" or norm(p.value) == norm(st[3])) and len(names) == 2 and d0 == 0 and d1 == 0
            chk.ob("C20.O2", "Ok(()) only after reconfigure and set_timeout both succeeded", ok, key="cp:ok-path", where=where, detail="%s -> %s" % (names, fmt_term(p.value)))
    chk.floor("C20.O2", "configure_port returning paths", nret, 2)
    # ---- the closure ---------------------------------------------------------------------------
    cfs = [f for f in closures if f["path"] in closure_defs] + [prog.fns[pth] for pth in closure_defs if pth in prog.fns and prog.fns[pth] not in closures]
    if len(cfs) != 1:
        chk.ob("C20.O1", "the reconfigure closure is a closure of configure_port (found %d)" % len(cfs), False, key="cp:closure-anchor", where=where)
    for cf in cfs:
        cev = Evaluator(prog, models)
        cpaths = cev.run(cf)
        cw = loc(cf["span"])
        nok = 0
        for p in cpaths:
            if p.kind != "return":
                chk.ob("C20.O1", "the settings closure has no panicking path", False, key="cl:panic", where=cw)
                continue
            cs = [e for e in p.trace if e[0] == "call"]
            rk, rv = result_shape(p.value)
            cons = norm_cons(p.cons)
            # every setter result that is a Result must not be dropped: its discriminant is decided on the path (the `?`)
            for e in cs:
                nm = e[1].split("::")[-1]
                if nm in SETTERS and "Result" in (e[3][2] or ""):
                    dd = known_val(cons, ("discr", norm(e[3])))
                    chk.ob("C20.O2", "result of %s is examined (not dropped)" % nm, dd is not None, key="cl:dropped:%s" % nm, where=e[4])
                    if dd == 1:
                        chk.ob("C20.O2", "an error from %s is returned by the closure" % nm, rk == "Err" and is_err_of(rv, e[3]), key="cl:err:%s" % nm, where=e[4], detail=fmt_term(p.value))
            if rk != "Ok":
                continue
            nok += 1
            seen = {}
            for e in cs:
                nm = e[1].split("::")[-1]
                if nm in SETTERS:
                    recv = e[2][0]
                    on_settings = recv[0] == "ref" and recv[1][0] == "heap" and recv[1][1] != "*_1" if False else (recv[0] == "ref" and recv[1][0] == "heap")
                    arg = e[2][1]
                    want = SETTERS[nm]
                    okc = arg[0] == "adt" and arg[1] == want[0] and arg[3] == want[1]
                    seen[nm] = (okc and on_settings, fmt_term(arg))
                elif not nm.startswith("branch") and "from_residual" not in nm:
                    chk.ob("C20.O1", "the closure calls nothing but the five setters (%s)" % e[1], False, key="cl:other-call:%s" % nm, where=e[4])
            for nm, want in SETTERS.items():
                got = seen.get(nm)
                chk.ob("C20.O1", "every Ok path sets %s(%s) on the settings argument" % (nm, want[1]), bool(got and got[0]), key="cl:setter:%s" % nm, where=cw,
                       detail="missing on an Ok path" if not got else "called with %s" % got[1])
            # unconditional: the only decisions on an Ok path are the `?` on setter results
            foreign = [fmt_term(t) for (t, v, w) in p.decisions if not (t[0] == "discr" and any(norm(t[1]) == norm(e[3]) for e in cs))]
            chk.ob("C20.O1", "the setters are called unconditionally (no test of prior settings)", not foreign, key="cl:conditional", where=cw, detail=str(foreign[:2]))
            chk.sample({"closure_ok_path": [(e[1].split("::")[-1], fmt_term(e[2][1]) if len(e[2]) > 1 else "") for e in cs]})
        chk.floor("C20.O1", "Ok paths of the settings closure", nok, 1)
        chk.note_analysed("functions", [cf["name"]])
    # ---- constructors ---------------------------------------------------------------------------
    ctors = []
    for adt, secs in ((SSB, 5), (ODK, 10)):
        fs = prog.inherent(adt, "try_new")
        ctors.append((one(fs, adt + "::try_new"), adt))
    for f, adt in ctors:
        ev2 = Evaluator(prog, models, no_inline=lambda g: g["path"] == cp["path"])
        w2 = loc(f["span"])
        def setup(st, adt=adt):
            st.aux["watch_adts"] = {adt}
        ps = ev2.run(f, setup=setup)
        nr = 0
        for p in ps:
            if p.kind != "return":
                chk.ob("C20.O3", "%s::try_new has no panicking path" % adt.split("::")[-1], False, key="ctor:panic:%s" % adt, where=w2)
                continue
            nr += 1
            cs = [e for e in p.trace if e[0] == "call" and a2.classify_call(units, e) == "configure_port"]
            built = [e for e in p.trace if e[0] == "construct"]
            rk, rv = result_shape(p.value)
            short = adt.split("::")[-1]
            if len(cs) != 1:
                chk.ob("C20.O3", "%s::try_new calls configure_port exactly once" % short, False, key="ctor:calls:%s" % adt, where=w2, detail=str(len(cs)))
                continue
            c = cs[0]
            okp = c[2][0][0] == "ref" and c[2][0][1][0] == "loc"
            ms = a2.duration_ms(c[2][1])
            chk.ob("C20.O3", "%s::try_new applies a non-zero read timeout (%s ms) to its own port argument" % (short, ms), okp and ms is not None and ms > 0, key="ctor:timeout:%s" % adt, where=w2)
            d = known_val(norm_cons(p.cons), ("discr", norm(c[3])))
            if d == 1:
                # (an object built beforehand and dropped on this path is not handed out: what counts is that the error is what is returned)
                ok = rk == "Err" and is_err_of(rv, c[3])
                chk.ob("C20.O3", "%s::try_new returns the configuration error, no object" % short, ok, key="ctor:err:%s" % adt, where=w2, detail=fmt_term(p.value))
            else:
                ok = d == 0 and rk == "Ok" and rv[0] == "adt" and rv[1] == adt
                # the object handed out holds the port configure_port worked on: built afterwards from it, or built first and configured in place
                before = p.trace.index(built[0]) > p.trace.index(c) if built else False
                in_place = ok and c[2][0][0] == "ref" and c[2][0][1][0] == "loc" and len(c[2][0][1]) > 3 and bool(c[2][0][1][3]) \
                    and any(isinstance(x, tuple) and x and x[0] == "sym" and str(x[1]).startswith("mut:configure_port") for x in rv[4])
                chk.ob("C20.O3", "%s handed out only after configure_port returned Ok on its port" % short, ok and (before or in_place), key="ctor:ok:%s" % adt, where=w2, detail=fmt_term(p.value))
        chk.floor("C20.O3", "%s::try_new returning paths" % adt.split("::")[-1], nr, 2)
        chk.note_analysed("functions", [f["name"]])
    chk.note_analysed("functions", [cp["name"]])
    chk.assumptions.append("serial-core: SerialPort::reconfigure reads the settings, runs the closure, writes the settings back iff the closure returned Ok")


# ======================================================================================
# C15 : Frame::read / Frame::write
# ======================================================================================
@at_log_levels("flipdot_core")
def run_c15(chk, prog):
    chk.notes.append("A2 on Frame::read<R> and Frame::write<W> (polymorphic MIR): the reader flows only into BufReader::with_capacity(1, ..), which is used exactly once by "
                     "read_until(b'\\n', fresh Vec); the result is from_bytes of that untouched Vec; the writer only sees write_all(to_bytes_with_newline()).")
    units = a2.Units(prog)
    models = Models(prog)
    rd = one(units.frame_read, "Frame::read")
    wr = one(units.frame_write, "Frame::write")
    one(units.frame_from_bytes, "Frame::from_bytes")
    one(units.to_bytes_nl, "Frame::to_bytes_with_newline")
    ni = units.names(units.frame_from_bytes, units.to_bytes_nl)
    # ---- read -----------------------------------------------------------------------------------
    ev = Evaluator(prog, models, no_inline=lambda f: f["path"] in ni)
    paths = ev.run(rd)
    where = loc(rd["span"])
    nr = 0
    for p in paths:
        if p.kind != "return":
            chk.ob("C15.O2", "Frame::read has no panicking path", False, key="read:panic", where=where)
            continue
        nr += 1
        cs = [e for e in p.trace if e[0] == "call"]
        names = [e[1].split("::")[-1] for e in cs]
        cons = norm_cons(p.cons)
        rk, rv = result_shape(p.value)
        reader_param = norm(("ref", ("heap", "*reader", ()), True))
        # O1: reader only into BufReader::with_capacity(c == 1)
        wc = [e for e in cs if e[1].endswith("BufReader::<R>::with_capacity")]
        uses_reader = [e for e in cs if any(a2.mentions(x, lambda t: t == ("heap", "*reader", ())) for x in list(e[2]) + [y for y in e[6] if y is not None])]
        ok1 = len(wc) == 1 and uses_reader == wc and wc[0][2][0] == mk_int(1, "usize")
        chk.ob("C15.O1", "the reader is used only as BufReader::with_capacity(1, reader)", ok1, key="read:bufreader", where=where,
               detail="capacity %s; calls touching the reader: %s" % (fmt_term(wc[0][2][0]) if wc else "-", [e[1].split("::")[-1] for e in uses_reader]))
        if not ok1:
            continue
        br = wc[0][3]
        # O2: the wrapper is used exactly once, by read_until(b'\n', &mut empty Vec)
        uses_br = [e for e in cs if e is not wc[0] and any(y is not None and norm(y) == norm(br) for y in e[6])]
        ru = [e for e in uses_br if e[1] == "std::io::BufRead::read_until"]
        ok2 = len(uses_br) == 1 and len(ru) == 1 and ru[0][2][1] == mk_int(10, "u8") and ru[0][6][2] == ("seq", ())
        chk.ob("C15.O2", "the BufReader is used exactly once: read_until(b'\\n', &mut <empty Vec>)", ok2, key="read:read_until", where=where,
               detail="uses: %s" % [(e[1].split("::")[-1], fmt_term(e[2][1]) if len(e[2]) > 1 else "") for e in uses_br])
        if not ok2:
            continue
        r = ru[0]
        d = known_val(cons, ("discr", norm(r[3])))
        chk.ob("C15.O3", "the result of read_until is examined, never dropped", d is not None, key="read:result-dropped", where=where)
        if d is None:
            continue
        if d == 1:
            src = rv
            ok3 = rk == "Err" and rv[0] == "adt" and rv[3] == "Io" and is_err_of(rv, r[3])
            chk.ob("C15.O3", "an I/O error from read_until is returned as FrameError::Io", ok3, key="read:io-error", where=where, detail=fmt_term(p.value))
            continue
        fb = [e for e in cs if a2.classify_call(units, e) == "Frame::from_bytes"]
        # the Vec handed to from_bytes is the one read_until filled, untouched in between
        data_tgt = r[2][2][1] if r[2][2][0] == "ref" else None
        ok4 = len(fb) == 1 and data_tgt is not None
        if ok4:
            filled = fb[0][6][0]
            # value at from_bytes time must be exactly what read_until left there (its havoc symbol)
            ok4 = filled is not None and filled[0] == "sym" and filled[1].startswith("mut:read_until")
            between = [e for e in p.trace[p.trace.index(r) + 1:p.trace.index(fb[0])] if e[0] in ("write", "store") or (e[0] == "call")]
            ok4 = ok4 and not [e for e in between if e[0] != "call" or any(a[0] == "ref" and a[1][:3] == data_tgt[:3] for a in e[2])]
        chk.ob("C15.O4", "the line read is decoded by Frame::from_bytes unchanged", ok4, key="read:from_bytes-arg", where=where)
        if fb and norm(rv if rk else p.value) == norm(fb[0][3]) or (fb and norm(p.value) == norm(fb[0][3])):
            chk.ob("C15.O4", "the result is exactly what Frame::from_bytes returned (decoded frame or its error)", True, where=where)
        elif fb:
            d2 = known_val(cons, ("discr", norm(fb[0][3])))
            if d2 == 1:
                chk.ob("C15.O4", "a decoding error is returned as is", rk == "Err" and is_err_of(rv, fb[0][3]), key="read:decode-error", where=where, detail=fmt_term(p.value))
            else:
                chk.ob("C15.O4", "the result is exactly the decoded frame", rk == "Ok" and is_ok_of(rv, fb[0][3]), key="read:result", where=where, detail=fmt_term(p.value))
        chk.sample({"read_path": names, "returns": fmt_term(p.value)[:80]})
    chk.floor("C15", "Frame::read returning paths", nr, 2)
    # ---- write ----------------------------------------------------------------------------------
    ev2 = Evaluator(prog, models, no_inline=lambda f: f["path"] in ni)
    paths = ev2.run(wr)
    where = loc(wr["span"])
    nw = 0
    for p in paths:
        if p.kind == "loopback":
            continue
        if p.kind != "return":
            last = norm(p.decisions[-1][0]) if p.decisions else None
            cap_assert = last is not None and "capacity" in fmt_term(last) and "assert_failed" in str(p.info)
            # (the encoder's own assert_eq! on Vec capacity, when the encoder is inlined here: C01.O4's assumption)
            chk.ob("C15.O5", "Frame::write has no panicking path", cap_assert, key="write:panic", where=where, detail=str(p.info))
            continue
        nw += 1
        cs = [e for e in p.trace if e[0] == "call"]
        rk, rv = result_shape(p.value)
        uses_writer = [e for e in cs if any(a2.mentions(x, lambda t: t == ("heap", "*writer", ())) for x in e[2])]
        enc = [e for e in cs if a2.classify_call(units, e) == "to_bytes_with_newline"]
        # a `flush()` after the write is not part of delivering the frame but does no harm to it: accepted when its result is
        # examined and its error surfaces as FrameError::Io (C18 has its own view of a step that can fail after the frame is out)
        tail = uses_writer[1:]
        if tail and uses_writer[0][1] == "std::io::Write::write_all" and all(e[1] == "std::io::Write::flush" for e in tail):
            cons_ = norm_cons(p.cons)
            okt = True
            for i_, e in enumerate(tail):
                dd = known_val(cons_, ("discr", norm(e[3])))
                if dd is None and norm(p.value) == norm(e[3]) and e is tail[-1]:
                    continue        # `writer.flush()` as the tail expression of a function returning io::Result is its own result
                if dd is None or (dd == 1 and not (e is tail[-1] and rk == "Err" and rv[0] == "adt" and rv[3] == "Io" and is_err_of(rv, e[3]))):
                    okt = False
            chk.ob("C15.O6", "a flush after the write has its result examined and its error returned as FrameError::Io", okt, key="write:flush", where=where, detail=fmt_term(p.value))
            flush_failed = any(known_val(cons_, ("discr", norm(e[3]))) == 1 for e in tail)
            uses_writer = uses_writer[:1]
            if flush_failed:
                continue
        ok5 = len(uses_writer) == 1 and uses_writer[0][1] == "std::io::Write::write_all" and len(enc) == 1
        if ok5:
            wa = uses_writer[0]
            selfref = enc[0][2][0]
            ok5 = wa[6][1] is not None and norm(wa[6][1]) == norm(enc[0][3]) and selfref[0] == "ref" and selfref[1][:2] == ("heap", "*self")
        if not ok5 and not enc and len(uses_writer) == 1 and uses_writer[0][1] == "std::io::Write::write_all" and uses_writer[0][6][1] is not None:
            # the encoder is reached through a shared helper instead of to_bytes_with_newline itself: the bytes written must
            # be, as a value, what to_bytes_with_newline(self) returns
            ok5 = written_equals_encoding(prog, models, wr, one(units.to_bytes_nl, "Frame::to_bytes_with_newline"))
        chk.ob("C15.O5", "the writer is used exactly once: write_all(&self.to_bytes_with_newline())", ok5, key="write:write_all", where=where,
               detail="calls touching the writer: %s" % [e[1].split("::")[-1] for e in uses_writer])
        if not ok5:
            continue
        d = known_val(norm_cons(p.cons), ("discr", norm(uses_writer[0][3])))
        chk.ob("C15.O6", "the result of write_all is examined, never dropped", d is not None, key="write:result-dropped", where=where)
        if d == 1:
            ok6 = rk == "Err" and rv[0] == "adt" and rv[3] == "Io" and is_err_of(rv, uses_writer[0][3])
            chk.ob("C15.O6", "a write error is returned as FrameError::Io", ok6, key="write:io-error", where=where, detail=fmt_term(p.value))
        else:
            chk.ob("C15.O6", "Ok(()) only after write_all succeeded", rk == "Ok" and d == 0, key="write:ok", where=where, detail=fmt_term(p.value))
    chk.floor("C15", "Frame::write returning paths", nw, 2)
    chk.note_analysed("functions", [rd["name"], wr["name"]])
    chk.assumptions += ["std::io::BufReader never buffers more than its capacity; BufRead::read_until consumes through the delimiter via fill_buf/consume and retries ErrorKind::Interrupted (std docs)",
                        "std::io::Write::write_all loops over short writes and retries ErrorKind::Interrupted (std docs)"]


def alpha(t):
    """drop the counters of fresh symbols so that values from two separate evaluations can be compared"""
    import re as _re
    if isinstance(t, tuple):
        if t and t[0] == "sym" and isinstance(t[1], str):
            return ("sym", _re.sub(r"#\d+", "#", t[1])) + tuple(t[2:])
        return tuple(alpha(x) for x in t)
    return t


def strip_sites(t):
    if isinstance(t, tuple):
        if t and t[0] == "item" and len(t) >= 3:
            return ("item", strip_sites(t[1]))
        return tuple(strip_sites(x) for x in t)
    return t


def written_equals_encoding(prog, models, wr, enc_fn):
    import p_frame
    cx = p_frame.Codec(prog)
    deep = {cx.payload["path"], cx.find_checksum()["path"]}
    evd = Evaluator(prog, models, no_inline=lambda f: f["path"] in deep)
    written = set()
    for q in evd.run(wr):
        for e in q.trace:
            if e[0] == "call" and e[1] == "std::io::Write::write_all":
                if e[6][1] is None:
                    return False
                written.add(strip_sites(alpha(norm(e[6][1]))))
    evn = Evaluator(prog, models, no_inline=lambda f: f["path"] in deep)
    encoded = set(strip_sites(alpha(norm(q.value))) for q in evn.run(enc_fn) if q.kind == "return")
    return bool(written) and written <= encoded


# ======================================================================================
# C17 : Odk bridge shape + three-way agreement on which kinds are answered
# ======================================================================================
@at_log_levels("flipdot_core", "flipdot_serial", "flipdot_testing", "flipdot")
def run_c17(chk, prog):
    chk.notes.append("Decides two clauses only (DESIGN.md 4 C17): (a) the bridge shape of Odk::process_message by A2 effect-order rules; (b) agreement of the serial bus's read "
                     "classification, the virtual sign's reply table and the controller's expectations on which message kinds are answered. End-to-end state equality is the "
                     "composition of C01, C04, C05, C15, C16 with (a),(b) (lemma L5) and is not re-derived.")
    # the byte-stream leg of the serial path (both directions, at the bus and at the bridge) is Frame::read / Frame::write
    n = chk.include("C17.io", run_c15, prog)
    chk.floor("C17.io", "obligations on Frame::write / Frame::read (the byte-stream leg)", n, 15)
    # the other legs of the composition (lemma L5): frame <-> bytes (C01), frame <-> message (C04, C05), the serial bus (C16)
    import p_frame, p_msgmap
    n = chk.include("C17.codec", p_frame.run_c01, prog)
    n += chk.include("C17.msg", p_msgmap.run_c04, prog)
    n += chk.include("C17.msg", p_msgmap.run_c05, prog, keep=lambda r: not r.startswith("C05.wire"))
    n += chk.include("C17.bus", run_c16, prog, keep=lambda r: not (r.startswith("C16.io") or r.startswith("C16.codec") or r.startswith("C16.msg")))
    chk.floor("C17", "obligations of the composed legs (codec, message mapping, serial bus)", n, 200)
    units = a2.Units(prog)
    models = Models(prog)
    fn = one(prog.inherent(ODK, "process_message"), "Odk::process_message")
    ni = units.names(units.frame_write, units.frame_read, units.msg_to_frame, units.frame_to_msg)
    a = prog.adts[ODK]
    fields = [f["name"] for f in a["variants"][0]["fields"]]
    port_i, bus_i = fields.index("port"), fields.index("bus")
    where = loc(fn["span"])
    ev = Evaluator(prog, models, no_inline=lambda f: f["path"] in ni)
    paths = ev.run(fn)
    nr = 0
    for p in paths:
        if p.kind != "return":
            chk.ob("C17.a", "Odk::process_message has no panicking path", False, key="odk:panic", where=where)
            continue
        nr += 1
        cs = calls_of(units, p)
        roles = [r for r, e in cs]
        cons = norm_cons(p.cons)
        rk, rv = result_shape(p.value)
        ok = bool(cs) and roles[0] == "Frame::read" and is_port_ref(cs[0][1][2][0], "*self", port_i)
        chk.ob("C17.a", "the bridge first reads one frame from its port", ok, key="odk:first-read", where=where, detail=str(roles))
        if not ok:
            continue
        rd = cs[0][1]
        allowed = ("Frame::read", "Message::from(Frame)", "flipdot_core::sign_bus::SignBus::process_message", "Frame::from(Message)", "Frame::write")
        chk.ob("C17.a", "the bridge reads exactly one frame per call", roles.count("Frame::read") == 1, key="odk:reads", where=where, detail=str(roles))
        other = [r for r in roles if r not in allowed]
        chk.ob("C17.a", "the bridge does nothing but read, convert, forward, convert, write", not other, key="odk:other-calls", where=where, detail=str(other[:3]))
        d = known_val(cons, ("discr", norm(rd[3])))
        chk.ob("C17.a", "the result of Frame::read is examined before anything else happens", d is not None, key="odk:read-result-dropped", where=where)
        if d is None:
            continue
        if d == 1:
            ok = len(cs) == 1 and rk == "Err" and rv[0] == "adt" and rv[3] == "Communication" and is_err_of(rv, rd[3])
            chk.ob("C17.a", "an undecodable line is reported as OdkError::Communication without touching the bus", ok, key="odk:read-err", where=where, detail="%s -> %s" % (roles, fmt_term(p.value)))
            continue
        busc = [(r, e) for r, e in cs if r == "flipdot_core::sign_bus::SignBus::process_message"]
        conv = [(r, e) for r, e in cs if r == "Message::from(Frame)"]
        ok = len(busc) == 1 and len(conv) == 1 and is_ok_of(conv[0][1][2][0], rd[3]) and norm(busc[0][1][2][1]) == norm(conv[0][1][3]) \
            and is_port_ref(busc[0][1][2][0], "*self", bus_i) and roles.index("Message::from(Frame)") < roles.index("flipdot_core::sign_bus::SignBus::process_message")
        chk.ob("C17.a", "the decoded frame is forwarded as bus.process_message(Message::from(frame))", ok, key="odk:forward", where=where, detail=str(roles))
        if not ok:
            continue
        bret = busc[0][1][3]
        d2 = known_val(cons, ("discr", norm(bret)))
        chk.ob("C17.a", "the bus result is examined, never dropped", d2 is not None, key="odk:bus-result-dropped", where=where)
        if d2 is None:
            continue
        writes = [(r, e) for r, e in cs if r == "Frame::write"]
        if d2 == 1:
            ok = rk == "Err" and rv[0] == "adt" and rv[3] == "Bus" and is_err_of(rv, bret) and not writes
            chk.ob("C17.a", "a bus error is reported as OdkError::Bus and nothing is written", ok, key="odk:bus-err", where=where, detail=fmt_term(p.value))
            continue
        okv = norm(("proj", ("proj", bret, ("downcast", 0, "Ok")), ("field", 0, "?")))
        d3 = known_val(cons, ("discr", okv))
        if d3 is None:
            d3 = known_val(cons, ("discr", ("unwrap", norm(bret))))
        if d3 is None:
            alt = [k for k in cons if k[0] == "discr" and k[1][0] in ("proj", "unwrap") and norm(bret) in (k[1][1], k[1][1][1] if k[1][1][0] == "proj" else None)]
            d3 = known_val(cons, alt[0]) if alt else None
        conv2 = [(r, e) for r, e in cs if r == "Frame::from(Message)"]
        if d3 == 1:
            ok = len(writes) == 1 and len(conv2) == 1 and is_port_ref(writes[0][1][2][1], "*self", port_i) and writes[0][1][6][0] is not None and norm(writes[0][1][6][0]) == norm(conv2[0][1][3])
            if ok:
                src = norm(conv2[0][1][2][0])
                ok = src[0] in ("proj", "unwrap") and a2.mentions(src, lambda t: t == norm(bret))
            chk.ob("C17.a", "when the bus replied Some(m) exactly one frame Frame::from(m) is written back", ok, key="odk:reply-write", where=where, detail=str(roles))
            wd = known_val(cons, ("discr", norm(writes[0][1][3]))) if writes else None
            if wd == 1:
                chk.ob("C17.a", "a write failure is reported as OdkError::Communication", rk == "Err" and rv[0] == "adt" and rv[3] == "Communication", key="odk:write-err", where=where, detail=fmt_term(p.value))
            elif wd == 0:
                chk.ob("C17.a", "Ok(()) after the reply was written", rk == "Ok", key="odk:ok-some", where=where)
        elif d3 == 0:
            chk.ob("C17.a", "when the bus replied None nothing is written and Ok(()) is returned", not writes and rk == "Ok", key="odk:none-write", where=where, detail=str(roles))
        else:
            chk.unproven("C17.a", "odk:reply-test", "the bridge's test of the bus reply is not a Some/None match", where)
        chk.sample({"bridge_path": roles, "returns": fmt_term(p.value)[:60]})
    chk.floor("C17.a", "Odk::process_message returning paths", nr, 5)
    chk.note_analysed("functions", [fn["name"]])
    # ---- (b) three-way agreement ------------------------------------------------------------------
    units2, sfn, sev, spaths, sport = serial_bus_paths(prog, False)
    msgsym = norm(("sym", "message", "?"))
    read_kinds = set()
    for p in spaths:
        if p.kind == "return" and any(r == "Frame::read" for r, e in calls_of(units2, p)):
            read_kinds |= variant_names(prog, MSG, norm_cons(p.cons).get(("discr", msgsym)))
    import p_vsign
    tab = p_vsign.SignTable(prog, log_on=False)
    sign_kinds = set()
    for r in tab.rows:
        if r["effect"].get("reply") is not None and "panic" not in r["effect"]:
            sign_kinds |= set(r["feats"].get("kind", frozenset(tab.kinds)))
    chk.ob("C17.b", "kinds the serial bus waits a reply for (%s) == kinds the virtual sign can answer (%s)" % (sorted(read_kinds), sorted(sign_kinds)), read_kinds == sign_kinds,
           key="agree:serial-vs-sign", where=loc(sfn["span"]))
    # controller side: kinds sent with a Some(..) expectation or whose reply is inspected
    try:
        import p_ctrl
        for lo in (False, True):
            ck = p_ctrl.expects_reply_kinds(prog, lo)
            chk.ob("C17.b", "kinds for which the controller expects a reply (%s) == kinds the serial bus reads a reply for%s" % (sorted(ck), " (logging on)" if lo else ""), ck == read_kinds, key="agree:controller-vs-serial", where=loc(sfn["span"]))
    except ImportError:
        chk.assumptions.append("controller-side leg of the three-way agreement is checked by C10 once its engine is present")
