"""C19 — sign-type configuration blocks: three tables + the virtual sign's derivation (A1, constants as rustc evaluated them)."""
from mireval import Evaluator, Unsupported, fmt_term, mk_int
from models import Models
from facts import loc
from common import at_log_levels
from p_msgmap import norm, norm_cons, known_val

ST = "flipdot_core::sign_type::SignType"
STE = "flipdot_core::sign_type::SignTypeError"
VSIGN = "flipdot_testing::virtual_sign_bus::VirtualSign"
MSG = "flipdot_core::message::Message"


def one(fns, what):
    if len(fns) != 1:
        raise Unsupported("anchor %s: found %d" % (what, len(fns)))
    return fns[0]


def bytes_of(ev, st, v):
    while v[0] == "ref":
        v = ev.load(st, v[1])
    if v[0] == "bytes":
        return v[1]
    return None


def extract_tables(prog, chk):
    models = Models(prog)
    f_from = one(prog.inherent(ST, "from_bytes"), "SignType::from_bytes")
    f_dim = one(prog.inherent(ST, "dimensions"), "SignType::dimensions")
    f_to = one(prog.inherent(ST, "to_bytes"), "SignType::to_bytes")
    variants = [v["name"] for v in prog.adts[ST]["variants"]]
    vidx = {v["name"]: v["idx"] for v in prog.adts[ST]["variants"]}
    out = {"variants": variants, "fns": (f_from, f_dim, f_to), "models": models}
    # to_bytes
    ev = Evaluator(prog, models)
    tb = {}
    paths = ev.run(f_to)
    for p in paths:
        if p.kind != "return":
            chk.ob("C19.O1", "SignType::to_bytes has no panicking path", False, key="to_bytes:panic", where=loc(f_to["span"]))
            continue
        d = known_val(norm_cons(p.cons), norm(("discr", ("sym", "self", ST))))
        b = bytes_of(ev, p.state, p.value)
        if d is None or b is None:
            chk.unproven("C19.O1", "to_bytes:nonconst", "SignType::to_bytes returns a non-constant block on some path (%s)" % fmt_term(p.value), loc(f_to["span"]))
            continue
        tb[ev.variant_by_discr(ST, d)["name"]] = b
    out["to_bytes"] = tb
    # dimensions
    ev = Evaluator(prog, models)
    dm = {}
    for p in ev.run(f_dim):
        if p.kind != "return":
            chk.ob("C19.O2", "SignType::dimensions has no panicking path", False, key="dimensions:panic", where=loc(f_dim["span"]))
            continue
        d = known_val(norm_cons(p.cons), norm(("discr", ("sym", "self", ST))))
        v = p.value
        if d is None or v[0] != "tuple" or any(x[0] != "int" for x in v[1]):
            chk.unproven("C19.O2", "dimensions:nonconst", "SignType::dimensions is not a constant pair on some path (%s)" % fmt_term(v), loc(f_dim["span"]))
            continue
        dm[ev.variant_by_discr(ST, d)["name"]] = (v[1][0][1], v[1][1][1])
    out["dimensions"] = dm
    # from_bytes
    ev = Evaluator(prog, models)
    paths = ev.run(f_from)
    out["from_paths"] = paths
    out["from_ev"] = ev
    chk.note_analysed("functions", [f_from["name"], f_dim["name"], f_to["name"]])
    return out


def run_c19(chk, prog):
    # the virtual sign's derivation is evaluated on the success edge of every assertion and with formatting as an opaque step:
    # that digesting a block does not panic in the sign-type code (hand-written fmt impls included) is C12's inventory, restricted
    # here to the constructs in the sign-type code
    import p_c12
    chk.include("C19.total", p_c12.run_c12, prog, keep_ob=lambda r, d, w: "sign_type" in w or "SignType" in d)
    run_c19_tables(chk, prog)


@at_log_levels("flipdot_core", "flipdot_testing")
def run_c19_tables(chk, prog):
    chk.notes.append("A1: SignType::{to_bytes, dimensions, from_bytes} are extracted as tables (constants as evaluated by rustc); their mutual consistency and the "
                     "field relations inside each block are checked for all 11 types; the virtual sign's configuration handler is evaluated on each block; "
                     "from_bytes is shown to reject every length other than 16 before indexing and to accept exactly the 11 (family, id) pairs.")
    t = extract_tables(prog, chk)
    f_from, f_dim, f_to = t["fns"]
    variants = t["variants"]
    tb, dm = t["to_bytes"], t["dimensions"]
    chk.floor("C19.O1", "to_bytes rows", len(tb), 11)
    chk.floor("C19.O2", "dimensions rows", len(dm), 11)
    for v in variants:
        chk.ob("C19.O1", "%s has a to_bytes row" % v, v in tb, key="to_bytes:missing:%s" % v, where=loc(f_to["span"]))
        chk.ob("C19.O2", "%s has a dimensions row" % v, v in dm, key="dimensions:missing:%s" % v, where=loc(f_dim["span"]))
    # ---- from_bytes table -----------------------------------------------------------------
    ev = t["from_ev"]
    sl = norm(("sym", "*bytes", "[u8]"))
    L = ("len", sl)
    B0 = norm(("proj", sl, ("index", mk_int(0, "usize"))))
    B1 = norm(("proj", sl, ("index", mk_int(1, "usize"))))
    accepted = {}
    n_wrong = n_unknown = 0
    for p in t["from_paths"]:
        w = loc(f_from["span"])
        if p.kind != "return":
            chk.ob("C19.O4", "SignType::from_bytes has no panicking path (%s)" % p.info, False, key="from_bytes:panic:%s" % p.info, where=w)
            continue
        und = [e for e in p.trace if e[0] == "assert_undecided"]
        for e in und:
            chk.ob("C19.O4", "index in SignType::from_bytes is within the checked length (%s: %s)" % (e[1], fmt_term(e[2])), False, key="from_bytes:oob:%s" % e[1], where=e[3])
        cons = norm_cons(p.cons)
        # (a comparison of the family / id byte with a constant is recorded in that byte's own domain as well)
        foreign = [k for k in cons if k not in (L, B0, B1) and not (k[0] == "app" and k[1] in ("Ne", "Eq") and (L in k[2] or (any(x in (B0, B1) for x in k[2]) and any(x[0] == "int" for x in k[2]))))]
        if foreign:
            chk.unproven("C19.O4", "from_bytes:foreign:%s" % fmt_term(foreign[0]), "SignType::from_bytes branches on %s (not length / family byte / id byte)" % fmt_term(foreign[0]), w)
            continue
        v = p.value
        lenk = known_val(cons, L)
        if v[0] == "adt" and v[3] == "Err":
            e = v[4][0]
            if e[0] == "adt" and e[3] == "WrongConfigLength":
                n_wrong += 1
                dl = cons.get(L)
                ok = dl is not None and dl[0] == "out" and dl[1] == frozenset([16])
                chk.ob("C19.O4", "WrongConfigLength is returned exactly when len != 16", ok, key="from_bytes:wronglen-cond", where=w, detail="condition on length: %r" % (dl,))
                okp = e[4][0] == mk_int(16, "u8") and norm(e[4][1]) == L
                chk.ob("C19.O4", "WrongConfigLength reports expected=16 and the actual length", okp, key="from_bytes:wronglen-payload", where=w, detail=fmt_term(e))
                chk.ob("C19.O4", "the length test precedes every index", not any(d[0] in (B0, B1) or (isinstance(d[0], tuple) and d[0][:1] == ("proj",)) for d in [(norm(x[0]),) for x in p.decisions]), key="from_bytes:index-before-len", where=w)
            elif e[0] == "adt" and e[3] == "UnknownConfig":
                n_unknown += 1
                chk.ob("C19.O4", "UnknownConfig only for 16-byte input", lenk == 16, key="from_bytes:unknown-len", where=w)
                okp = norm(e[4][0]) == ("app", "to_vec", (sl,))
                chk.ob("C19.O4", "UnknownConfig carries the input bytes", okp, key="from_bytes:unknown-payload", where=w, detail=fmt_term(e))
            else:
                chk.ob("C19.O4", "only WrongConfigLength / UnknownConfig errors", False, key="from_bytes:other-error:%s" % fmt_term(e)[:40], where=w)
        elif v[0] == "adt" and v[3] == "Ok":
            st = v[4][0]
            b0, b1 = known_val(cons, B0), known_val(cons, B1)
            if st[0] != "adt" or b0 is None or b1 is None or lenk != 16:
                chk.unproven("C19.O1", "from_bytes:ok-shape", "an Ok path of from_bytes is not keyed by a constant (family, id) pair at length 16: %s" % fmt_term(v), w)
                continue
            accepted.setdefault((b0, b1), []).append(st[3])
        else:
            chk.unproven("C19.O4", "from_bytes:shape", "unexpected result %s" % fmt_term(v), w)
    chk.floor("C19.O4", "WrongConfigLength paths", n_wrong, 1)
    chk.floor("C19.O4", "UnknownConfig paths", n_unknown, 1)
    # accepted set == {(to_bytes[v][0], to_bytes[v][1])}
    want = {}
    for v, b in tb.items():
        chk.ob("C19.O1", "%s: configuration block is 16 bytes" % v, len(b) == 16, key="to_bytes:len:%s" % v, where=loc(f_to["span"]), detail="%d bytes" % len(b))
        if len(b) >= 2:
            want.setdefault((b[0], b[1]), []).append(v)
    for pair, vs in want.items():
        chk.ob("C19.O1", "(family, id) = (0x%02X, 0x%02X) identifies one type (%s)" % (pair[0], pair[1], vs), len(vs) == 1, key="to_bytes:dup:%02x%02x" % pair, where=loc(f_to["span"]))
        got = accepted.get(pair)
        chk.ob("C19.O1", "from_bytes maps %s's (family, id) = (0x%02X, 0x%02X) back to %s" % (vs[0], pair[0], pair[1], vs[0]), got == [vs[0]],
               key="from_bytes:roundtrip:%s" % vs[0], where=loc(f_from["span"]), detail="decodes to %s" % got)
        chk.sample("%s: block %s <-> (0x%02X,0x%02X), dimensions %s" % (vs[0], tb[vs[0]].hex(), pair[0], pair[1], dm.get(vs[0])))
    for pair, got in accepted.items():
        chk.ob("C19.O1", "from_bytes accepts (0x%02X, 0x%02X) only because it is the block of a supported type" % pair, pair in want,
               key="from_bytes:extra:%02x%02x" % pair, where=loc(f_from["span"]), detail="accepted as %s but no type's block starts with these bytes" % got)
    chk.floor("C19.O1", "accepted (family, id) pairs", len(accepted), 11)
    # ---- O2 field relations inside each block ------------------------------------------------
    for v in variants:
        if v not in tb or v not in dm or len(tb[v]) != 16:
            continue
        b = tb[v]
        w, h = dm[v]
        fam = b[0]
        wh = loc(f_to["span"])
        if fam == 0x04:
            chk.ob("C19.O2", "%s (Max3000): height byte [4]=%d equals reported height %d" % (v, b[4], h), b[4] == h, key="block:height:%s" % v, where=wh)
            chk.ob("C19.O2", "%s (Max3000): sum of panel widths [5..9]=%d equals reported width %d" % (v, sum(b[5:9]), w), sum(b[5:9]) == w, key="block:width:%s" % v, where=wh)
            chk.ob("C19.O2", "%s (Max3000): bits-per-column byte [9]=%d equals 8*ceil(%d/8)=%d" % (v, b[9], h, 8 * ((h + 7) // 8)), b[9] == 8 * ((h + 7) // 8), key="block:bpc:%s" % v, where=wh)
        elif fam == 0x08:
            chk.ob("C19.O2", "%s (Horizon): height byte [5]=%d equals reported height %d" % (v, b[5], h), b[5] == h, key="block:height:%s" % v, where=wh)
            chk.ob("C19.O2", "%s (Horizon): width byte [7]=%d equals reported width %d" % (v, b[7], w), b[7] == w, key="block:width:%s" % v, where=wh)
            chk.ob("C19.O2", "%s (Horizon): width byte [7]=%d equals A1*B1 + A2*B2 = %d*%d + %d*%d" % (v, b[7], b[8], b[10], b[9], b[11]), b[7] == b[8] * b[10] + b[9] * b[11], key="block:panels:%s" % v, where=wh)
        else:
            chk.ob("C19.O2", "%s: family byte 0x%02X is Max3000 (04) or Horizon (08)" % (v, fam), False, key="block:family:%s" % v, where=wh)
    # ---- O3 the virtual sign's derivation --------------------------------------------------------
    vs_derivation(chk, prog, t)


def vs_derivation(chk, prog, t):
    models = t["models"]
    pm = one([f for f in prog.inherent(VSIGN, "process_message")], "VirtualSign::process_message")
    a = prog.adts[VSIGN]
    fields = [f["name"] for f in a["variants"][0]["fields"]]
    need = ["state", "width", "height", "sign_type", "data_chunks"]
    for n_ in need:
        if n_ not in fields:
            raise Unsupported("VirtualSign has no field %s" % n_)
    ev0 = Evaluator(prog, models)
    n = 0
    for v, block in sorted(t["to_bytes"].items()):
        if v not in t["dimensions"] or len(block) != 16:
            continue
        for log_on in (False, True):
            ev = Evaluator(prog, models, log_on=log_on)
            selfsym = ("sym", "*self", VSIGN)
            cell = list(ev.materialize(selfsym, {"k": "adt", "adt": VSIGN})[4])
            cell[fields.index("state")] = ev.mk_adt("flipdot_core::message::State", "ConfigInProgress")
            cellv = ("adt", VSIGN, 0, a["variants"][0]["name"], tuple(cell))
            data = ev.mk_adt("flipdot_core::frame::Data", "Data", (ev.mk_adt("alloc::borrow::Cow", "Borrowed", (("ref", ("val", ("bytes", block), ()), False),)),))
            msg = ev.mk_adt(MSG, "SendData", (ev.mk_adt("flipdot_core::message::Offset", "Offset", (mk_int(0, "u16"),)), data))
            paths = ev.run(pm, heap={"*self": cellv, "*message": msg})
            where = loc(pm["span"])
            rets = [p for p in paths if p.kind == "return"]
            pan = [p for p in paths if p.kind == "panic"]
            tag = "%s%s" % (v, " (logging on)" if log_on else "")
            if pan:
                chk.ob("C19.O3", "virtual sign digests the %s block without panicking" % tag, False, key="vsign:panic:%s" % v, where=pan[0].trace[-1][-1] if pan[0].trace else where, detail=str(pan[0].info))
                continue
            if not rets:
                chk.unproven("C19.O3", "vsign:paths:%s" % v, "virtual sign's handling of the %s block has no returning path" % tag, where)
                continue
            # every path (the sign's prior type, sizes and buffers are unconstrained) must derive the block's own dimensions and type
            n += 1
            want = t["dimensions"][v]
            for p in rets:
                h = p.heap["*self"]
                w_, h_ = h[4][fields.index("width")], h[4][fields.index("height")]
                sty = h[4][fields.index("sign_type")]
                ok = w_[0] == "int" and h_[0] == "int" and (w_[1], h_[1]) == want
                cond = "; ".join("%s=%s" % (fmt_term(t_)[:50], v_) for (t_, v_, _) in p.decisions[-3:]) if len(rets) > 1 else ""
                chk.ob("C19.O3", "virtual sign derives %dx%d from the %s block (= dimensions())" % (want[0], want[1], tag), ok, key="vsign:dims:%s" % v, where=where,
                       detail="derives %s x %s%s" % (fmt_term(w_), fmt_term(h_), (" on the path where " + cond) if cond else ""))
                oks = sty[0] == "adt" and sty[3] == "Some" and sty[4][0][0] == "adt" and sty[4][0][3] == v
                chk.ob("C19.O3", "virtual sign records sign type %s for its block" % tag, oks, key="vsign:type:%s" % v, where=where, detail=fmt_term(sty))
    chk.floor("C19.O3", "virtual-sign derivations evaluated", n, 22)
    chk.note_analysed("functions", [pm["name"]])
