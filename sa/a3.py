"""A3 — bit-provenance and affine-mod-256 domains for the straight-line byte builders."""
from mireval import term_type, int_bits, fmt_term


def width_of(t, default=None):
    ty = term_type(t)
    b, s = int_bits(ty or "")
    return b or default


def bits_of(t, width, var_width=None):
    """LSB-first list of `width` slots: ('c', 0|1) | ('v', var, i) | ('?',)"""
    def pad(bs):
        bs = list(bs)[:width]
        return bs + [("c", 0)] * (width - len(bs))
    k = t[0]
    if k == "int":
        v = t[1]
        return [("c", (v >> i) & 1) for i in range(width)]
    if k == "app":
        op = t[1]
        if op.startswith("cast:"):
            tb, sg = int_bits(op[5:])
            inner = t[2][0]
            iw = width_of(inner, var_width) or tb
            ib = bits_of(inner, iw or width, var_width)
            if tb:
                ib = ib[:tb]
            return pad(ib)
        if op in ("Shr", "Shl", "Div", "Rem", "BitAnd", "BitOr") and len(t[2]) == 2:
            a, b = t[2]
            aw = width_of(a, var_width) or width
            if op in ("Shr", "Div") and b[0] == "int":
                c = b[1] if op == "Shr" else (b[1].bit_length() - 1 if b[1] > 0 and b[1] & (b[1] - 1) == 0 else None)
                if c is not None:
                    return pad(bits_of(a, aw, var_width)[c:])
            if op == "Shl" and b[0] == "int":
                return pad([("c", 0)] * b[1] + bits_of(a, aw, var_width))
            if op == "Rem" and b[0] == "int" and b[1] > 0 and b[1] & (b[1] - 1) == 0:
                return pad(bits_of(a, aw, var_width)[:b[1].bit_length() - 1])
            if op in ("BitAnd", "BitOr"):
                x, y = bits_of(a, max(aw, width), var_width), bits_of(b, max(aw, width), var_width)
                out = []
                for p, q in zip(x, y):
                    if op == "BitAnd":
                        if p == ("c", 0) or q == ("c", 0):
                            out.append(("c", 0))
                        elif p == ("c", 1):
                            out.append(q)
                        elif q == ("c", 1):
                            out.append(p)
                        elif p == q:
                            out.append(p)
                        else:
                            out.append(("?",))
                    else:
                        if p == ("c", 1) or q == ("c", 1):
                            out.append(("c", 1))
                        elif p == ("c", 0):
                            out.append(q)
                        elif q == ("c", 0):
                            out.append(p)
                        elif p == q:
                            out.append(p)
                        else:
                            out.append(("?",))
                return pad(out)
        return [("?",)] * width
    # a variable
    w = width_of(t, var_width) or width
    return pad([("v", t, i) for i in range(w)])


def var_bits(v, lo, hi, width):
    out = [("v", v, i) for i in range(lo, hi)]
    return out + [("c", 0)] * (width - len(out))


def affine(t, vars_):
    """t as  const + sum coeff*var  (mod 256), over the given variable terms; None if not affine"""
    if t in vars_:
        return (0, {t: 1})
    k = t[0]
    if k == "int":
        return (t[1] % 256, {})
    if k == "app":
        op = t[1]
        if op in ("wrapping_add", "Add", "wrapping_sub", "Sub") and len(t[2]) == 2:
            a, b = affine(t[2][0], vars_), affine(t[2][1], vars_)
            if a is None or b is None:
                return None
            sg = 1 if op in ("wrapping_add", "Add") else -1
            co = dict(a[1])
            for v, c in b[1].items():
                co[v] = (co.get(v, 0) + sg * c) % 256
            return ((a[0] + sg * b[0]) % 256, co)
        if op in ("Neg", "wrapping_neg") and len(t[2]) == 1:
            a = affine(t[2][0], vars_)
            if a is None:
                return None
            return ((-a[0]) % 256, {v: (-c) % 256 for v, c in a[1].items()})
        if op == "Not" and len(t[2]) == 1:
            a = affine(t[2][0], vars_)
            if a is None:
                return None
            return ((-a[0] - 1) % 256, {v: (-c) % 256 for v, c in a[1].items()})
        if op.startswith("cast:"):
            b, sg = int_bits(op[5:])
            if b and b >= 8:
                return affine(t[2][0], vars_)
    return None
