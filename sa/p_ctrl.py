"""C09 / C10 / C11 (and the controller leg of C17.b, C08): rules over the extracted controller automaton (A8)."""
import itertools
from mireval import Unsupported, fmt_term, mk_int
from models import Models, struct_eq
from facts import loc
from p_msgmap import norm
import a8

SIGN = "flipdot::sign::Sign"
MSG = "flipdot_core::message::Message"
STATE = "flipdot_core::message::State"
OP = "flipdot_core::message::Operation"
ENTRIES = ["configure", "configure_if_needed", "send_pages", "show_loaded_page", "load_next_page", "shut_down"]
ADDRESSED = ("Hello", "QueryState", "ReportState", "RequestOperation", "AckOperation", "PixelsComplete", "Goodbye")

OWN = None  # set per graph: the term `self.address`
FOREIGN = ("sym", "foreign-address")


class Ctl:
    """Extracted automaton of one controller operation, with replies resolved over the abstract alphabet."""

    def __init__(self, prog, name):
        self.prog = prog
        self.name = name
        fns = prog.inherent(SIGN, name)
        if len(fns) != 1:
            raise Unsupported("anchor Sign::%s: %d found" % (name, len(fns)))
        self.fn = fns[0]
        self.g = a8.ProtocolGraph(prog, self.fn, no_inline=lambda f: f["name"] == "flipdot_core::sign_type::SignType::to_bytes", log_on=LOG_ON)
        self.ev = self.g.ev
        a = prog.adts[SIGN]
        self.fields = [f["name"] for f in a["variants"][0]["fields"]]
        self.own = norm(("proj", ("sym", "*self", SIGN), ("field", self.fields.index("address"))))
        self.states = [v["name"] for v in prog.adts[STATE]["variants"]]
        self.ops = [v["name"] for v in prog.adts[OP]["variants"]]
        self.alphabet = self.make_alphabet()
        self.msgs = {}
        for k in self.g.order:
            n = self.g.nodes[k]
            self.msgs[k] = self.g.message_of(n)
        self._succ = {}

    # ---- abstract reply alphabet -------------------------------------------------------
    def mk(self, adt, v, *fields):
        return self.ev.mk_adt(adt, v, fields)

    def make_alphabet(self):
        ev = self.ev
        OPT, RES = "core::option::Option", "core::result::Result"
        out = []
        out.append(("bus-error", self.mk(RES, "Err", ("sym", "bus-error"))))
        out.append(("none", self.mk(RES, "Ok", self.mk(OPT, "None"))))

        def some(m):
            return self.mk(RES, "Ok", self.mk(OPT, "Some", m))
        for who, addr in (("own", self.own), ("foreign", FOREIGN)):
            for s in self.states:
                out.append(("ReportState(%s,%s)" % (who, s), some(self.mk(MSG, "ReportState", addr, self.mk(STATE, s)))))
            for o in self.ops:
                out.append(("AckOperation(%s,%s)" % (who, o), some(self.mk(MSG, "AckOperation", addr, self.mk(OP, o)))))
        out.append(("Hello(own)", some(self.mk(MSG, "Hello", self.own))))
        out.append(("QueryState(own)", some(self.mk(MSG, "QueryState", self.own))))
        out.append(("RequestOperation(own,%s)" % self.ops[0], some(self.mk(MSG, "RequestOperation", self.own, self.mk(OP, self.ops[0])))))
        out.append(("PixelsComplete(own)", some(self.mk(MSG, "PixelsComplete", self.own))))
        out.append(("Goodbye(own)", some(self.mk(MSG, "Goodbye", self.own))))
        out.append(("SendData", some(self.mk(MSG, "SendData", ("sym", "some-offset"), ("sym", "some-data")))))
        out.append(("DataChunksSent", some(self.mk(MSG, "DataChunksSent", ("sym", "some-count")))))
        out.append(("Unknown", some(self.mk(MSG, "Unknown", ("sym", "some-frame")))))
        return out

    # ---- evaluating the code's tests on a concrete abstract reply ---------------------------
    def ev_term(self, t, env):
        """value of term t with the reply symbol bound; returns a term (possibly concrete) or ('free',) for environment atoms"""
        if not isinstance(t, tuple):
            return t
        k = t[0]
        if k == "sym":
            nt = norm(t)
            if nt in env:
                return env[nt]
            return nt
        if k == "int":
            return t
        if k == "proj":
            b = self.ev_term(t[1], env)
            e = t[2]
            if b[0] == "free":
                return b
            if e[0] == "downcast":
                if b[0] == "adt":
                    if b[2] != e[1]:
                        return ("bottom",)
                    return b
                return norm(("proj", b, e))
            if e[0] == "field":
                if b[0] == "adt":
                    return b[4][e[1]]
                if b[0] == "tuple":
                    return b[1][e[1]]
                if b[0] == "bottom":
                    return b
                return norm(("proj", b, e))
            return norm(("proj", b, e))
        if k == "unwrap":
            b = self.ev_term(t[1], env)
            if b[0] == "adt":
                return b[4][0] if b[3] in ("Some", "Ok") else ("bottom",)
            if b[0] in ("bottom", "free"):
                return b
            return ("unwrap", b)
        if k == "discr":
            b = self.ev_term(t[1], env)
            if b[0] == "adt":
                return mk_int(self.ev.discr_of(b[1], b[2]), "isize")
            if b[0] == "bottom":
                return b
            return ("discr", b)
        if k == "deq":
            d = self.ev_term(t[1], env)
            if d[0] == "int":
                return mk_int(int(d[1] == t[2]), "bool")
            if d[0] == "bottom":
                return mk_int(0, "bool")
            return ("free",)
        if k == "and":
            vals = [self.ev_term(a, env) for a in t[1]]
            if any(v == mk_int(0, "bool") for v in vals):
                return mk_int(0, "bool")
            if all(v == mk_int(1, "bool") for v in vals):
                return mk_int(1, "bool")
            return ("free",)
        if k == "eq":
            a, b = self.ev_term(t[1], env), self.ev_term(t[2], env)
            if a[0] == "bottom" or b[0] == "bottom":
                return mk_int(0, "bool")
            return self.eq_val(a, b)
        if k == "app":
            if t[1] == "Not":
                v = self.ev_term(t[2][0], env)
                if v[0] == "int":
                    return mk_int(1 - v[1], "bool")
                return ("free",)
            if t[1] in ("Eq", "Ne") and len(t[2]) == 2:
                a, b = self.ev_term(t[2][0], env), self.ev_term(t[2][1], env)
                if a[0] == "int" and b[0] == "int":
                    return mk_int(int((a[1] == b[1]) == (t[1] == "Eq")), "bool")
                if a[0] == "bottom" or b[0] == "bottom":
                    return mk_int(0, "bool")
                r = self.eq_val(a, b)
                if r[0] == "int":
                    return r if t[1] == "Eq" else mk_int(1 - r[1], "bool")
                return ("free",)
            return ("free",)
        if k == "adt":
            return ("adt", t[1], t[2], t[3], tuple(self.ev_term(x, env) for x in t[4]))
        return ("free",)

    def eq_val(self, a, b):
        a, b = norm(a), norm(b)
        if a == b:
            return mk_int(1, "bool")
        if a[0] == "adt" and b[0] == "adt":
            if a[1] != b[1] or a[2] != b[2]:
                return mk_int(0, "bool")
            rs = [self.eq_val(x, y) for x, y in zip(a[4], b[4])]
            if any(r == mk_int(0, "bool") for r in rs):
                return mk_int(0, "bool")
            if all(r == mk_int(1, "bool") for r in rs):
                return mk_int(1, "bool")
            return ("free",)
        # the two address symbols are distinct by construction
        if {a, b} == {self.own, FOREIGN}:
            return mk_int(0, "bool")
        if a[0] == "int" and b[0] == "int":
            return mk_int(int(a[1] == b[1]), "bool")
        return ("free",)

    def edge_holds(self, node, e, reply):
        """(holds?, env atoms) of edge e of `node` under abstract reply value `reply`"""
        env = {norm(node.reply): reply}
        envatoms = []
        for (t, val, w) in e.decisions:
            v = self.ev_term(t, env)
            if v[0] == "free" or v[0] != "int":
                envatoms.append((norm(t), val))
                continue
            if isinstance(val, tuple) and val and val[0] == "not":
                if v[1] in val[1]:
                    return False, []
            elif v[1] != val:
                return False, []
        return True, envatoms

    def successors(self, key, rname, reply):
        ck = (key, rname)
        if ck in self._succ:
            return self._succ[ck]
        node = self.g.nodes[key]
        out = []
        for e in node.edges:
            if e.outcome == "loopback":
                continue
            ok, envatoms = self.edge_holds(node, e, reply)
            if ok:
                out.append((e, envatoms))
        self._succ[ck] = out
        return out

    # ---- signatures -------------------------------------------------------------------
    def msg_sig(self, m):
        if m[0] != "adt" or m[1] != MSG:
            return ("?", fmt_term(m)[:60])
        kind = m[3]
        sig = [kind]
        if kind in ADDRESSED:
            sig.append("own" if norm(m[4][0]) == self.own else "addr:" + fmt_term(m[4][0]))
        for f in m[4][1:] if kind in ADDRESSED else ():
            if f[0] == "adt" and f[1] in (STATE, OP):
                sig.append(f[3])
            else:
                sig.append(fmt_term(f)[:40])
        return tuple(sig)

    def outcome_sig(self, e, node=None):
        if e.outcome == "panic":
            return ("panic", str(e.info))
        v = e.value
        if v is None:
            return ("?",)
        if v[0] == "adt" and v[3] == "Ok":
            x = v[4][0]
            return ("ok", x[3] if x[0] == "adt" else "()" if x[0] == "unit" else fmt_term(x)[:40])
        if v[0] == "adt" and v[3] == "Err":
            x = v[4][0]
            if x[0] == "adt" and x[3] == "Bus":
                src = x[4][0]
                ok = node is not None and norm(src) == norm(("proj", ("proj", node.reply, ("downcast", 1, "Err")), ("field", 0, "?")))
                return ("err_bus",) if ok or node is None else ("err_bus?", fmt_term(src)[:40])
            if x[0] == "adt" and x[3] == "UnexpectedResponse":
                return ("err_unexpected",)
            return ("err", fmt_term(x)[:60])
        return ("?", fmt_term(v)[:60])

    def succ_sigs(self, key, rname, reply):
        node = self.g.nodes[key]
        out = []
        for e, envatoms in self.successors(key, rname, reply):
            if e.dst is not None:
                out.append((("node",) + self.msg_sig(self.msgs[e.dst]), e.dst, envatoms))
            else:
                out.append((self.outcome_sig(e, node), None, envatoms))
        return out


_CACHE = {}
# log macros evaluate their arguments only when the record is enabled: every controller rule set is decided twice, with the
# global maximum level below every record (no argument runs) and above every record (all of them run)
LOG_ON = False


def both_log_levels(run):
    def wrapped(chk, prog):
        global LOG_ON
        old = LOG_ON
        try:
            for lo in (False, True):
                LOG_ON = lo
                run(chk, prog)
        finally:
            LOG_ON = old
    wrapped.__name__ = run.__name__
    wrapped.__doc__ = run.__doc__
    return wrapped


def controller(prog, name):
    k = (id(prog), name, LOG_ON)
    if k not in _CACHE:
        _CACHE[k] = Ctl(prog, name)
    return _CACHE[k]


# ==========================================================================================
# Reference protocol (DESIGN.md Appendix C)
# ==========================================================================================
UNEXP = ("err_unexpected",)
BUSERR = ("err_bus",)


def transfer_ref(op, ok, fail, cont):
    """nodes X1..X4 for attempts 1..3; cont = successor descriptor after success"""
    nodes = {}
    for a in (1, 2, 3):
        x1, x2, x3, x4 = "X1[%s,%d]" % (op, a), "X2[%s,%d]" % (op, a), "X3[%s,%d]" % (op, a), "X4[%s,%d]" % (op, a)
        nodes[x1] = {"msg": ("RequestOperation", "own", op), "on": {"AckOperation(own,%s)" % op: [x2, x3]}}
        nodes[x2] = {"msg": ("SendData",), "on": {"none": [x2, x3]}}
        nodes[x3] = {"msg": ("DataChunksSent",), "on": {"none": [x4]}}
        on4 = {"ReportState(own,%s)" % ok: [cont]}
        if a < 3:
            on4["ReportState(own,%s)" % fail] = ["X1[%s,%d]" % (op, a + 1)]
        nodes[x4] = {"msg": ("QueryState", "own"), "on": on4}
    return nodes, "X1[%s,1]" % op


def reference(name):
    """-> (nodes, start).  node: msg signature, 'on': reply-name -> list of successors (node names or outcome tuples); default: err_unexpected; bus-error: err_bus"""
    N = {}
    if name in ("configure", "configure_if_needed"):
        t, tstart = transfer_ref("ReceiveConfig", "ConfigReceived", "ConfigFailed", ("ok", "()"))
        N.update(t)
        N["E0"] = {"msg": ("Hello", "own"), "on": {"ReportState(own,Unconfigured)": [tstart], "ReportState(own,ReadyToReset)": ["E1"]}, "default": ["E3"]}
        N["E1"] = {"msg": ("RequestOperation", "own", "FinishReset"), "on": {"AckOperation(own,FinishReset)": ["E2"]}}
        N["E2"] = {"msg": ("Hello", "own"), "on": {"ReportState(own,Unconfigured)": [tstart]}}
        N["E3"] = {"msg": ("RequestOperation", "own", "StartReset"), "on": {"AckOperation(own,StartReset)": ["E4"]}}
        N["E4"] = {"msg": ("Hello", "own"), "on": {"ReportState(own,ReadyToReset)": ["E5"]}}
        N["E5"] = {"msg": ("RequestOperation", "own", "FinishReset"), "on": {"AckOperation(own,FinishReset)": ["E6"]}}
        N["E6"] = {"msg": ("Hello", "own"), "on": {"ReportState(own,Unconfigured)": [tstart]}}
        start = "E0"
        if name == "configure_if_needed":
            ready = ["ConfigReceived", "ShowingPages", "PageLoaded", "PageShowInProgress", "PageShown", "PageLoadInProgress"]
            N["C0"] = {"msg": ("Hello", "own"), "on": {"ReportState(own,%s)" % s: [("ok", "()")] for s in ready}, "default": ["E0"]}
            start = "C0"
        return N, start
    if name == "send_pages":
        t, tstart = transfer_ref("ReceivePixels", "PixelsReceived", "PixelsFailed", "P1")
        N.update(t)
        N["P1"] = {"msg": ("PixelsComplete", "own"), "on": {"none": ["P2"]}}
        N["P2"] = {"msg": ("QueryState", "own"), "on": {"ReportState(own,ShowingPages)": [("ok", "Automatic")]}, "default": [("ok", "Manual")]}
        return N, tstart
    if name in ("show_loaded_page", "load_next_page"):
        target, trigger, op = ("PageShown", "PageLoaded", "ShowLoadedPage") if name == "show_loaded_page" else ("PageLoaded", "PageShown", "LoadNextPage")
        N["S0"] = {"msg": ("QueryState", "own"), "on": {
            "ReportState(own,ShowingPages)": [("ok", "()")], "ReportState(own,%s)" % target: [("ok", "()")], "ReportState(own,%s)" % trigger: ["S1"],
            "ReportState(own,PageLoadInProgress)": ["S0"], "ReportState(own,PageShowInProgress)": ["S0"]}}
        N["S1"] = {"msg": ("RequestOperation", "own", op), "on": {"AckOperation(own,%s)" % op: ["S0"]}}
        return N, "S0"
    if name == "shut_down":
        N["G0"] = {"msg": ("Goodbye", "own"), "on": {"none": [("ok", "()")]}}
        return N, "G0"
    raise Unsupported("no reference for %s" % name)


def ref_succ(N, rn, rname):
    node = N[rn]
    if rname == "bus-error":
        return [BUSERR]
    if rname in node["on"]:
        return node["on"][rname]
    return node.get("default", [UNEXP])


def ref_sig(N, d):
    if isinstance(d, tuple):
        return d
    return ("node",) + tuple(N[d]["msg"])


# ==========================================================================================
# C10
# ==========================================================================================
@both_log_levels
def _run_c10(chk, prog):
    chk.notes.append("A8: the automaton of each of Sign's six public operations is extracted from MIR (nodes = bus-call sites x call stack x attempt counter; the reply is a fresh symbol; "
                     "edges carry the code's own tests) and compared by bisimulation with the documented protocol (DESIGN.md Appendix C) for all 48 abstract replies at every node.")
    total_nodes = 0
    total_pairs = 0
    sites = set()
    for name in ENTRIES:
        c = controller(prog, name)
        N, start = reference(name)
        where = loc(c.fn["span"])
        g = c.g
        total_nodes += len(g.nodes)
        for k in g.order:
            sites.add(tuple((p[0], p[1]) for p in k))
        # start: single edge into the first node
        starts = [e for e in g.start_edges]
        if len(starts) != 1 or starts[0].dst is None:
            chk.ob("C10", "%s: begins by emitting one message" % name, False, key="ctl:%s:start" % name, where=where)
            continue
        seen = {}
        work = [(starts[0].dst, start)]
        while work:
            ek, rn = work.pop()
            if (ek, rn) in seen:
                continue
            seen[(ek, rn)] = True
            node = g.nodes[ek]
            esig = ("node",) + c.msg_sig(c.msgs[ek])
            rsig = ref_sig(N, rn)
            okm = esig == rsig
            chk.ob("C10.msg", "%s: at protocol step %s the controller emits %s" % (name, rn, "/".join(rsig[1:])), okm, key="ctl:%s:msg:%s" % (name, rn), where=node.where,
                   detail="emits %s" % "/".join(map(str, esig[1:])))
            if not okm:
                continue
            for rname, reply in c.alphabet:
                total_pairs += 1
                es = c.succ_sigs(ek, rname, reply)
                rs = ref_succ(N, rn, rname)
                esigs = sorted(set(s for s, d, env in es))
                rsigs = sorted(set(ref_sig(N, d) for d in rs))
                ok = esigs == rsigs
                chk.ob("C10.step", "%s: step %s on reply %s -> %s" % (name, rn, rname, " | ".join("/".join(map(str, s)) for s in rsigs)), ok,
                       key="ctl:%s:%s:%s" % (name, rn, rname), where=node.where,
                       detail="code goes to %s" % (" | ".join("/".join(map(str, s)) for s in esigs) or "nothing (no edge matches)"))
                if not ok:
                    continue
                # determinism: two edges for the same reply must differ in an environment atom
                for (s1, d1, e1), (s2, d2, e2) in itertools.combinations(es, 2):
                    if s1 == s2 and d1 == d2:
                        continue
                    a1, a2 = dict(e1), dict(e2)
                    if not any(a1[t] != a2[t] for t in a1 if t in a2):
                        chk.ob("C10.det", "%s: step %s on %s is deterministic given the data shape" % (name, rn, rname), False, key="ctl:%s:%s:%s:nondet" % (name, rn, rname), where=node.where)
                # pair successors by signature
                for s, d, env in es:
                    if d is None:
                        continue
                    for rd in rs:
                        if not isinstance(rd, tuple) and ref_sig(N, rd) == s:
                            work.append((d, rd))
        # every extracted node must have been paired (no unreachable / extra protocol steps)
        paired = set(ek for ek, rn in seen)
        extra = [k for k in g.order if k not in paired]
        chk.ob("C10.cover", "%s: every extracted protocol node corresponds to a documented step (%d nodes, %d pairs)" % (name, len(g.order), len(seen)), not extra,
               key="ctl:%s:extra-nodes" % name, where=where, detail="unpaired: %s" % [fmt_term(c.msgs[k])[:50] for k in extra[:3]])
        refn = set(rn for ek, rn in seen)
        missing = [n for n in N if n not in refn]
        chk.ob("C10.cover", "%s: every documented step is realised by the code" % name, not missing, key="ctl:%s:missing-steps" % name, where=where, detail=str(missing[:5]))
        chk.sample({"operation": name, "nodes": len(g.order), "paired_with_reference": len(seen)})
    chk.extra["states"] = total_nodes
    chk.extra["transitions"] = total_pairs
    chk.extra["traces_validated_against_impl"] = 0
    chk.extra["model_origin"] = "the automaton is extracted from the implementation's MIR on every run (it is not a hand-written model), so no trace replay against the implementation is needed"
    chk.floor("C10", "message-emission call stacks reaching the bus call", len(sites), 6)
    chk.floor("C10", "entry points analysed", len(ENTRIES), 6)
    chk.note_analysed("functions", ["flipdot::sign::Sign::%s" % n for n in ENTRIES])


# ==========================================================================================
# C11
# ==========================================================================================
def run_c11(chk, prog):
    _run_c11(chk, prog)
    # fail-stop quantifies over every reply the protocol does not allow at a step: which replies those are is the reference
    # protocol (Appendix C), so that clause is C10's step rule, run here as a leg; the invariants above need no reference
    n = chk.include("C11.failstop", _run_c10, prog, keep=lambda r: r.startswith("C10.step"))
    chk.floor("C11.failstop", "controller transitions compared with the documented protocol (C10.step)", n, 200)


@both_log_levels
def _run_c11(chk, prog):
    chk.notes.append("Invariants on the extracted controller automaton (A8), without a reference: own address on every addressed message; a foreign-address reply is never treated "
                     "differently from an unrecognised one; success of configure/send_pages only through `own address AND received state` on the QueryState that ends a transfer; "
                     "a bus error always ends the operation with that error; at most three transfer requests on any path, retried only on `own address AND failed state`.")
    for name in ENTRIES:
        c = controller(prog, name)
        g = c.g
        where = loc(c.fn["span"])
        # O1
        for k in g.order:
            m = c.msgs[k]
            sig = c.msg_sig(m)
            if sig[0] in ADDRESSED:
                chk.ob("C11.O1", "%s: emitted %s carries self.address" % (name, sig[0]), sig[1] == "own", key="ctl:%s:addr:%s" % (name, "/".join(map(str, sig))), where=g.nodes[k].where,
                       detail=str(sig))
            elif sig[0] == "?":
                chk.unproven("C11.O1", "ctl:%s:msg-shape" % name, "%s: emitted message is not a Message aggregate (%s)" % (name, sig[1]), g.nodes[k].where)
        # O2: foreign == unknown
        unk = [r for r in c.alphabet if r[0] == "Unknown"][0]
        for k in g.order:
            base = sorted(set(s for s, d, e in c.succ_sigs(k, unk[0], unk[1])))
            for rname, reply in c.alphabet:
                if "(foreign," not in rname:
                    continue
                got = sorted(set(s for s, d, e in c.succ_sigs(k, rname, reply)))
                chk.ob("C11.O2", "%s: reply %s at step %s is handled like an unrecognised reply" % (name, rname, "/".join(map(str, c.msg_sig(c.msgs[k])))), got == base,
                       key="ctl:%s:foreign:%s:%s" % (name, "/".join(map(str, c.msg_sig(c.msgs[k]))), rname), where=g.nodes[k].where,
                       detail="foreign -> %s ; unrecognised -> %s" % (got, base))
        # O4: bus error -> only Err(Bus)
        be = c.alphabet[0]
        for k in g.order:
            got = sorted(set(s for s, d, e in c.succ_sigs(k, be[0], be[1])))
            chk.ob("C11.O4", "%s: a bus error at step %s ends the operation with that error" % (name, "/".join(map(str, c.msg_sig(c.msgs[k])))), got == [("err_bus",)],
                   key="ctl:%s:buserr:%s" % (name, "/".join(map(str, c.msg_sig(c.msgs[k])))), where=g.nodes[k].where, detail=str(got))
        # fail-stop: a segment that builds an UnexpectedResponse / propagates an error never continues to another emit
        for k in g.order:
            for e in g.nodes[k].edges:
                if e.dst is not None and any(ev[0] == "construct" for ev in (e.state.trace if e.state else ())):
                    chk.ob("C11.O4", "%s: nothing is sent after an error value was constructed" % name, False, key="ctl:%s:send-after-error" % name, where=g.nodes[k].where)
        if name in ("configure", "configure_if_needed", "send_pages"):
            transfer_invariants(chk, c, name)
    chk.note_analysed("functions", ["flipdot::sign::Sign::%s" % n for n in ENTRIES])


def transfer_nodes(c):
    """classify nodes of a transfer: X1 (request for ReceiveConfig/ReceivePixels), X2 SendData, X3 DataChunksSent, X4 QueryState following X3"""
    g = c.g
    X = {"X1": [], "X2": [], "X3": [], "X4": []}
    for k in g.order:
        sig = c.msg_sig(c.msgs[k])
        if sig[0] == "RequestOperation" and sig[-1] in ("ReceiveConfig", "ReceivePixels"):
            X["X1"].append(k)
        elif sig[0] == "SendData":
            X["X2"].append(k)
        elif sig[0] == "DataChunksSent":
            X["X3"].append(k)
    x3 = set(X["X3"])
    for k in x3:
        for e in g.nodes[k].edges:
            if e.dst is not None and c.msg_sig(c.msgs[e.dst])[0] == "QueryState" and e.dst not in X["X4"]:
                X["X4"].append(e.dst)
    return X


def transfer_invariants(chk, c, name):
    g = c.g
    X = transfer_nodes(c)
    op = "ReceivePixels" if name == "send_pages" else "ReceiveConfig"
    okst, failst = ("PixelsReceived", "PixelsFailed") if name == "send_pages" else ("ConfigReceived", "ConfigFailed")
    chk.floor("C11", "%s: transfer request nodes" % name, len(X["X1"]), 3)
    chk.floor("C11", "%s: transfer result queries" % name, len(X["X4"]), 3)
    # O3 / O5 on each X4
    x1set = set(X["X1"])
    for k in X["X4"]:
        node = g.nodes[k]
        for rname, reply in c.alphabet:
            ss = c.succ_sigs(k, rname, reply)
            retry = [d for s, d, e in ss if d in x1set]
            cont = [(s, d) for s, d, e in ss if d not in x1set and s not in (("err_unexpected",), ("err_bus",))]
            if retry:
                chk.ob("C11.O5", "%s: a transfer is retried only after ReportState(own,%s) (retry on %s)" % (name, failst, rname), rname == "ReportState(own,%s)" % failst,
                       key="ctl:%s:retry-on:%s" % (name, rname), where=node.where)
            if cont:
                chk.ob("C11.O3", "%s: the transfer is taken as successful only on ReportState(own,%s) (continues on %s)" % (name, okst, rname), rname == "ReportState(own,%s)" % okst,
                       key="ctl:%s:success-on:%s" % (name, rname), where=node.where, detail=str([s for s, d in cont]))
    # O3: every Ok outcome is behind a success edge of some X4: remove those edges and search
    succ_edges = set()
    for k in X["X4"]:
        for rname, reply in c.alphabet:
            if rname == "ReportState(own,%s)" % okst:
                for e, env in c.successors(k, rname, reply):
                    succ_edges.add(id(e))
    reach_ok = False
    seen = set()
    work = [e for e in g.start_edges]
    # edges that some abstract reply can actually take (the others are infeasible combinations of tests)
    feasible = set(id(e) for e in g.start_edges)
    for k in g.order:
        for rname, reply in c.alphabet:
            for e, env in c.successors(k, rname, reply):
                feasible.add(id(e))
    while work:
        e = work.pop()
        if id(e) in succ_edges or id(e) not in feasible:
            continue
        if e.dst is None:
            if e.outcome == "return" and c.outcome_sig(e)[0] == "ok":
                # configure_if_needed may legitimately succeed without a transfer (C0: sign reports itself ready)
                if not (name == "configure_if_needed" and e.src is not None and c.msg_sig(c.msgs[e.src.key])[0] == "Hello" and e.src.key == g.start_edges[0].dst):
                    reach_ok = True
            continue
        if e.dst in seen:
            continue
        seen.add(e.dst)
        work.extend(x for x in g.nodes[e.dst].edges if x.outcome != "loopback")
    chk.ob("C11.O3", "%s: success is reachable only through `own address AND %s` on the query that ends a transfer" % (name, okst), not reach_ok, key="ctl:%s:unconfirmed-success" % name,
           where=loc(c.fn["span"]))
    # O5: at most three requests on any path, no cycle through a request node
    adj = {k: [e.dst for e in g.nodes[k].edges if e.dst is not None] for k in g.order}
    # longest chain of X1 nodes via DFS with cycle detection restricted to X1 nodes
    memo = {}
    onstack = set()
    cyc = []

    def depth(k):
        if k in memo:
            return memo[k]
        if k in onstack:
            return 0
        onstack.add(k)
        best = 0
        for d in adj[k]:
            best = max(best, depth(d))
        onstack.discard(k)
        memo[k] = best + (1 if k in x1set else 0)
        return memo[k]

    def in_cycle(k):
        seen2 = set()
        work2 = list(adj[k])
        while work2:
            x = work2.pop()
            if x == k:
                return True
            if x in seen2:
                continue
            seen2.add(x)
            work2.extend(adj[x])
        return False
    import sys
    sys.setrecursionlimit(10000)
    for k in X["X1"]:
        if in_cycle(k):
            cyc.append(k)
    chk.ob("C11.O5", "%s: no cycle passes through a transfer request (retries are counted)" % name, not cyc, key="ctl:%s:retry-cycle" % name, where=loc(c.fn["span"]))
    mx = max([depth(e.dst) for e in g.start_edges if e.dst is not None] or [0])
    chk.ob("C11.O5", "%s: at most three transfer requests on any path (longest chain: %d)" % (name, mx), mx <= 3, key="ctl:%s:attempts" % name, where=loc(c.fn["span"]))


# ==========================================================================================
# C09
# ==========================================================================================
@both_log_levels
def _run_c09(chk, prog):
    chk.notes.append("A8 + A3 on the transfer routine reached from configure and send_pages: SendData only after the own-address ack of the matching request; per item the chunk iterator is "
                     "item.chunks(N).enumerate(), the offset is trunc16(i*N) of that same enumerate and the data is Data::try_new of that same chunk, N = 16; the counter is 0 after the ack, "
                     "+1 after each accepted SendData and is what DataChunksSent announces; the result query follows; configure sends once(sign_type.to_bytes()), send_pages maps pages to as_bytes.")
    for name in ("configure", "send_pages"):
        c = controller(prog, name)
        g = c.g
        where = loc(c.fn["span"])
        X = transfer_nodes(c)
        op = "ReceivePixels" if name == "send_pages" else "ReceiveConfig"
        chk.floor("C09", "%s: SendData nodes" % name, len(X["X2"]), 3)
        chk.floor("C09", "%s: DataChunksSent nodes" % name, len(X["X3"]), 3)
        x1, x2, x3, x4 = set(X["X1"]), set(X["X2"]), set(X["X3"]), set(X["X4"])
        preds = {}
        for k in g.order:
            for e in g.nodes[k].edges:
                if e.dst is not None:
                    preds.setdefault(e.dst, []).append((k, e))
        # O1: SendData only from (X1 on own ack of op) or (SendData on none)
        for k in X["X2"] + X["X3"]:
            for pk, e in preds.get(k, []):
                node = g.nodes[pk]
                enabling = [rname for rname, reply in c.alphabet if any(x is e for x, env in c.successors(pk, rname, reply))]
                if pk in x1:
                    ok = enabling == ["AckOperation(own,%s)" % op]
                    chk.ob("C09.O1", "%s: data follows the request only on AckOperation(own,%s)" % (name, op), ok, key="xfer:%s:after-request" % name, where=node.where, detail=str(enabling))
                elif pk in x2:
                    ok = enabling == ["none"]
                    chk.ob("C09.O1", "%s: the next chunk / the count follows a chunk only when the chunk got no reply" % name, ok, key="xfer:%s:after-chunk" % name, where=node.where, detail=str(enabling))
                else:
                    chk.ob("C09.O1", "%s: %s is reached only from the request or a previous chunk" % (name, c.msg_sig(c.msgs[k])[0]), False, key="xfer:%s:stray-entry:%s" % (name, c.msg_sig(c.msgs[pk])[0]),
                           where=node.where, detail="entered from %s" % (c.msg_sig(c.msgs[pk]),))
        # X3 -> X4 only on none; X4 is QueryState(own)
        for k in X["X3"]:
            for e in g.nodes[k].edges:
                if e.dst is not None:
                    ok = e.dst in x4
                    chk.ob("C09.O3", "%s: after announcing the count the controller asks for the result" % name, ok, key="xfer:%s:after-count" % name, where=g.nodes[k].where)
        # O2: shape of the SendData message
        for k in X["X2"]:
            m = c.msgs[k]
            why = senddata_shape(m)
            chk.ob("C09.O2", "%s: each chunk is SendData(Offset(trunc16(i*16)), Data(chunk)) with (i, chunk) from item.chunks(16).enumerate()" % name, why is None,
                   key="xfer:%s:chunk-shape" % name, where=g.nodes[k].where, detail=why)
            if why is None:
                src = chunk_source(m)
                want = ("proj", ("item", data_iter_of(c, name)), ("deref",))
                oks = src is not None and strip_loc(src) == strip_loc(want)
                di = data_iter_of(c, name)
                if not oks and src is not None and di is not None and di[0] == "iter" and di[1] == "once" and strip_loc(src) == strip_loc(("proj", di[2], ("deref",))):
                    oks = True      # the single item of a one-element iterator that was walked concretely
                chk.ob("C09.O4", "%s: the chunked item is an item of the caller's data iterator" % name, oks, key="xfer:%s:item-source" % name, where=g.nodes[k].where,
                       detail="chunks of %s" % (fmt_term(src) if src else "?"))
        # O3: counter discipline
        counter_rules(chk, c, name, X, preds)
        # O4: what is transferred
        it = data_iter_of(c, name)
        if name == "configure":
            ok = it is not None and it[0] == "iter" and it[1] == "once" and it[2][0] == "sym" and it[2][1].startswith("ret:to_bytes")
            calls = []
            for e in g.start_edges:
                calls += [ev for ev in (e.state.trace if e.state else ()) if ev[0] == "call" and ev[1].endswith("SignType::to_bytes")]
            for k in g.order:
                for e in g.nodes[k].edges:
                    calls += [ev for ev in (e.state.trace if e.state else ()) if ev[0] == "call" and ev[1].endswith("SignType::to_bytes")]
            st_i = c.fields.index("sign_type")
            okc = bool(calls) and all(norm(ev[2][0]) == norm(("proj", ("sym", "*self", SIGN), ("field", st_i))) for ev in calls)
            chk.ob("C09.O4", "configure transfers exactly one item: self.sign_type.to_bytes()", ok and okc, key="xfer:configure:item", where=where, detail=fmt_term(it) if it else "?")
        else:
            ok = it is not None and it[0] == "iter" and it[1] == "map" and it[2][0] == "iter" and it[2][1] == "into" and it[2][2][0] == "sym" and it[2][2][1] == "pages" \
                and ((it[3][0] == "fn" and it[3][1][0].endswith("::as_bytes")) or closure_is_as_bytes(c.ev, it[3]))
            chk.ob("C09.O4", "send_pages transfers pages.into_iter().map(Page::as_bytes)", ok, key="xfer:send_pages:items", where=where, detail=fmt_term(it) if it else "?")
        chk.sample({"operation": name, "SendData": fmt_term(c.msgs[X["X2"][0]])[:200] if X["X2"] else None})
    chk.assumptions += ["slice::chunks(N) pieces concatenate to the slice, each of 1..=N elements; Iterator::enumerate counts from 0 per iterator instance; Clone of the item iterator restarts it (std docs)",
                        "exact within the property's bound: items <= 65535 bytes and <= 65535 chunks (the `as u16` truncation and the u16 counter increment are out-of-bound behaviour)"]
    chk.note_analysed("functions", ["flipdot::sign::Sign::send_data", "flipdot::sign::Sign::configure", "flipdot::sign::Sign::send_pages"])


def closure_is_as_bytes(ev, f):
    """the closure |page| page.as_bytes(): one block chain whose only call is Page::as_bytes on its own argument, returned as is"""
    if f[0] != "closure" or f[1] not in ev.prog.fns or f[2]:
        return False
    body = ev.prog.fns[f[1]]["body"]
    calls = [b["term"] for b in body["blocks"] if not b["cleanup"] and b["term"]["t"] == "call"]
    if len(calls) != 1 or "fn" not in calls[0]["func"]:
        return False
    fj = calls[0]["func"]["fn"]
    name = (fj.get("resolved") or fj)["name"]
    if not name.endswith("page::Page::<'a>::as_bytes") and not name.endswith("Page::as_bytes"):
        return False
    others = [b["term"]["t"] for b in body["blocks"] if not b["cleanup"] and b["term"]["t"] not in ("call", "return", "goto", "drop")]
    return not others and calls[0]["dest"]["local"] == 0


def strip_loc(t):
    """drop source positions embedded in item terms"""
    if isinstance(t, tuple):
        if t and t[0] == "item":
            return ("item", strip_loc(t[1]))
        return tuple(strip_loc(x) for x in t)
    return t


def senddata_shape(m):
    """None if m == SendData(Offset(cast:u16(Mul(item_index(E), N))), Data(Cow::Borrowed(item(C)))) with E = enumerate(C), C = chunks(X, N), N = 16"""
    if m[0] != "adt" or m[3] != "SendData":
        return "not a SendData aggregate"
    off, data = m[4]
    if not (off[0] == "adt" and len(off[4]) == 1):
        return "offset is not an Offset(..) aggregate"
    o = off[4][0]
    if o[0] == "app" and o[1] == "wrapping_mul" and len(o[2]) == 2 and any(x[0] == "app" and x[1] == "cast:u16" for x in o[2]):
        # (i as u16).wrapping_mul(N) == (i * N) as u16: truncation commutes with multiplication mod 2^16
        c = [x for x in o[2] if x[0] == "app" and x[1] == "cast:u16"][0]
        k = [x for x in o[2] if x is not c][0]
        o = ("app", "cast:u16", (("app", "Mul", (c[2][0], mk_int(k[1], "usize") if k[0] == "int" else k)),))
    if not (o[0] == "app" and o[1] == "cast:u16"):
        return "offset %s is not a u16 truncation" % fmt_term(o)
    mul = o[2][0]
    if mul[0] == "app" and mul[1] == "Shl" and len(mul[2]) == 2 and mul[2][1][0] == "int" and 0 <= mul[2][1][1] < 16:
        mul = ("app", "Mul", (mul[2][0], mk_int(1 << mul[2][1][1], "usize")))       # i << k == i * 2^k
    if not (mul[0] == "app" and mul[1] == "Mul" and len(mul[2]) == 2):
        return "offset %s is not index * chunk size" % fmt_term(mul)
    idx, n = mul[2]
    if n[0] != "int":
        idx, n = n, idx
    if n[0] != "int" or idx[0] != "item_index":
        return "offset %s is not (enumerate index) * constant" % fmt_term(mul)
    en = idx[1]
    if not (en[0] == "iter" and en[1] == "enumerate" and en[2][0] == "iter" and en[2][1] == "chunks"):
        return "the index does not come from item.chunks(N).enumerate() but from %s" % fmt_term(en)
    ch = en[2]
    if ch[3] != n:
        return "offset step %s differs from the chunk size %s" % (fmt_term(n), fmt_term(ch[3]))
    if n[1] != 16:
        return "chunk size is %d, not 16" % n[1]
    # data
    d = data
    if d[0] == "unwrap":
        return "Data::try_new(chunk) result is not proven Ok (%s)" % fmt_term(d)
    if not (d[0] == "adt" and d[1].endswith("frame::Data") and d[4][0][0] == "adt" and d[4][0][3] == "Borrowed"):
        return "data %s is not Data::try_new(chunk)" % fmt_term(d)
    src = d[4][0][4][0]
    while src[0] == "ref" and src[1][0] == "val" and not src[1][2] and src[1][1][0] == "proj" and src[1][1][2] == ("deref",):
        src = src[1][1][1]          # `&*chunk`: the reborrow made when the chunk is passed on to a helper
    if not (src[0] == "item" and strip_loc(src[1]) == strip_loc(ch)):
        return "the data %s is not the chunk paired with the index" % fmt_term(src)
    return None


def chunk_source(m):
    try:
        return m[4][0][4][0][2][0][2][0][1][2][2]
    except Exception:
        return None


def data_iter_of(c, name):
    """the iterator handed to the transfer routine (what `data.clone()` yields)"""
    for k in c.g.order:
        m = c.msgs[k]
        if m[0] == "adt" and m[3] == "SendData":
            src = chunk_source(m)
            if src and src[0] == "proj" and src[1][0] == "item":
                return src[1][1]
            if src and src[0] == "proj" and src[2] == ("deref",) and src[1][0] == "sym" and str(src[1][1]).startswith("ret:to_bytes"):
                # a one-element collection iterated concretely (`[block].into_iter()`): the item is the element itself
                return ("iter", "once", src[1])
    return None


def inner_int(v):
    """the integer carried by a value: the value itself, or the single field of a newtype (ChunkCount(n))"""
    if v is None:
        return None
    if v[0] == "adt" and len(v[4]) == 1 and v[2] == 0:
        return v[4][0]
    if v[0] in ("int", "sym", "app", "proj"):
        return v
    return None


def named_locals(st):
    """(stack index, local, name) of every named local of every activation"""
    out = []
    for i, a in enumerate(st.stack):
        for v in a.body["vars"]:
            if not v["place"]["proj"]:
                out.append((i, v["place"]["local"], v["name"], a.fn["path"]))
    return out


def local_at(st, i, l, by_fid=True):
    if i >= len(st.stack):
        return None
    a = st.stack[i]
    return st.frames.get(a.fid, {}).get(l)


def is_plus_one(after, before):
    if after is None or before is None:
        return False
    if before[0] == "int" and after[0] == "int":
        return after[1] == before[1] + 1
    return after in (("app", "Add", (before, mk_int(1, "u16"))), ("app", "wrapping_add", (before, mk_int(1, "u16"))))


def counter_rules(chk, c, name, X, preds):
    """C09.O3 — there is a named counter variable h of the transfer routine such that, per attempt:
    h == 0 when the first chunk follows the acknowledged request; h grows by exactly 1 across every SendData;
    and DataChunksSent announces h (0 when no chunk was sent)."""
    g = c.g
    x1, x2, x3 = set(X["X1"]), set(X["X2"]), set(X["X3"])

    def count_of(e):
        m = c.ev.detach(e.state, e.value) if e.value is not None else None
        if m is None or m[0] != "adt" or m[3] != "DataChunksSent":
            return None
        return inner_int(m[4][0])

    for k2 in X["X2"]:
        node2 = g.nodes[k2]
        att = attempts_of(k2)
        cands = [(i, l, nm) for (i, l, nm, fp) in named_locals(node2.state) if inner_int(local_at(node2.state, i, l)) is not None]
        verdicts = {}
        for (i, l, nm) in cands:
            why = None
            before = inner_int(local_at(node2.state, i, l))
            # arrivals at this SendData node
            for pk, e in preds.get(k2, []):
                val = inner_int(local_at(e.state, i, l))
                if pk in x1:
                    if not (val is not None and val[0] == "int" and val[1] == 0):
                        why = "`%s` is %s, not 0, when the first chunk follows the acknowledged request" % (nm, fmt_term(val) if val else "?")
                elif pk in x2:
                    prev = inner_int(local_at(g.nodes[pk].state, i, l))
                    if not is_plus_one(val, prev):
                        why = "`%s` goes from %s to %s across one chunk" % (nm, fmt_term(prev) if prev else "?", fmt_term(val) if val else "?")
                if why:
                    break
            # departures into the count message of the same attempt
            if not why:
                for e in node2.edges:
                    if e.dst in x3:
                        cnt = count_of(e)
                        if not is_plus_one(cnt, before):
                            why = "DataChunksSent announces %s after a chunk sent with `%s` = %s" % (fmt_term(cnt) if cnt else "?", nm, fmt_term(before))
                            break
            verdicts[(i, l, nm)] = why
        good = [k_ for k_, w_ in verdicts.items() if w_ is None]
        detail = None
        if not good:
            # report the most counter-like candidate: a u16/ChunkCount local
            pref = [k_ for k_ in verdicts if "chunk" in k_[2] or "count" in k_[2] or "sent" in k_[2]] or list(verdicts)
            detail = "; ".join(verdicts[k_] for k_ in pref[:2]) if pref else "no named integer variable in scope"
        chk.ob("C09.O3", "%s: a counter variable is 0 after the ack, +1 per chunk sent, and is what DataChunksSent announces%s" % (name, " (`%s`)" % good[0][2] if good else ""), bool(good),
               key="xfer:%s:counter" % name, where=node2.where, detail=detail)
    # no chunk at all: the count announced right after the ack is 0
    for k3 in X["X3"]:
        for pk, e in preds.get(k3, []):
            if pk in x1:
                cnt = count_of(e)
                ok = cnt is not None and cnt[0] == "int" and cnt[1] == 0
                chk.ob("C09.O3", "%s: with nothing to send the announced count is 0" % name, ok, key="xfer:%s:counter-empty" % name, where=g.nodes[pk].where, detail=fmt_term(cnt) if cnt else "?")


def attempts_of(k):
    return tuple(p[2] for p in k)


# ==========================================================================================
def expects_reply_kinds(prog, log_on=False):
    """message kinds for which the controller accepts some non-empty reply (controller leg of C17.b)"""
    global LOG_ON
    old, LOG_ON = LOG_ON, log_on
    try:
        ctls = [controller(prog, name) for name in ENTRIES]
    finally:
        LOG_ON = old
    kinds = set()
    for c in ctls:
        for k in c.g.order:
            sig = c.msg_sig(c.msgs[k])
            for rname, reply in c.alphabet:
                if rname in ("bus-error", "none"):
                    continue
                ss = c.succ_sigs(k, rname, reply)
                if any(s not in (("err_unexpected",),) for s, d, e in ss):
                    kinds.add(sig[0])
    return kinds


def run_c09(chk, prog):
    _run_c09(chk, prog)
    # what an item *is* lies outside the transfer routine: a page's bytes are Page::as_bytes of a buffer of the documented length
    # (C07.O1/O3), the configuration block is SignType::to_bytes (C19.O1: the 16-byte table); both are legs of this property
    import p_page, p_signtype
    n = chk.include("C09.page", p_page.run_c07, prog, keep=lambda r: r.startswith("C07.O1") or r.startswith("C07.O3"))
    n += chk.include("C09.block", p_signtype.run_c19_tables, prog, keep=lambda r: r.startswith("C19.O1"))
    chk.floor("C09.items", "obligations on what is transferred (page bytes C07.O1/O3, configuration block C19.O1)", n, 10)


def run_c10(chk, prog):
    _run_c10(chk, prog)
    # the automaton abstracts the data messages (any number of items and chunks): their contents, offsets and count are C09's
    # subject, and the bytes of a page C07's; the prescribed message sequence includes them
    n = chk.include("C10.data", run_c09, prog)
    chk.floor("C10.data", "obligations on the data messages of a transfer (C09, with C07.O1/O3 and C19.O1)", n, 100)
