import sys
sys.path.insert(0,'/verif/sa')
from facts import *
from mireval import *
from models import Models
d,k=ensure_facts(); prog=Program(d)
models=Models(prog)
def find(pat):
    r=[f for f in prog.fns.values() if pat in f['path'] or pat in f['name']]
    assert len(r)==1, [f['path'] for f in r]
    return r[0]
if __name__=='__main__':
    fn=find(sys.argv[1])
    ev=Evaluator(prog,models,log_on=(len(sys.argv)>2 and sys.argv[2]=='log'))
    paths=ev.run(fn)
    for p in paths:
        print(p.kind, fmt_term(p.value) if p.value else p.info)
        for (t,v,w) in p.decisions: print('     if', fmt_term(t), '=', v, ' @', w.split(' ')[0])
        for e in p.trace: print('     ev', e[0], ' '.join(fmt_term(x) if isinstance(x,tuple) and x and isinstance(x[0],str) else str(x) for x in e[1:]))
        for c,v in p.heap.items(): print('     heap',c,'=',fmt_term(v))
    print(len(paths),'paths', {k:(v if not isinstance(v,set) else sorted(v)) for k,v in ev.stats.items()})
