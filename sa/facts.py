"""Facts loader: hashes /repo's sources, (re)extracts MIR facts when stale, loads them.

The facts are the resolved program (MIR at opt-level 0, ADTs, constants, callees) as
written by tools/mirfacts.  Nothing in here executes flipdot code.
"""
import hashlib
import json
import os
import subprocess
import sys
import fcntl
import re

VERIF = os.path.dirname(os.path.dirname(os.path.abspath(__file__)))
REPO = os.environ.get("VERIF_REPO", "/repo")
CACHE = os.path.join(VERIF, ".cache")
CRATES = ["flipdot_core", "flipdot_serial", "flipdot_testing", "flipdot"]


def tree_hash(repo=None):
    repo = repo or REPO
    h = hashlib.sha256()
    files = []
    for root, dirs, fs in os.walk(repo):
        dirs[:] = sorted(d for d in dirs if d not in ("target", ".git"))
        for f in sorted(fs):
            if f.endswith(".rs") or f in ("Cargo.toml", "Cargo.lock", "rust-toolchain.toml", "rust-toolchain", "config.toml"):
                files.append(os.path.join(root, f))
    for p in sorted(files):
        h.update(os.path.relpath(p, repo).encode())
        h.update(b"\0")
        with open(p, "rb") as fh:
            h.update(fh.read())
        h.update(b"\0")
    # the driver binary is part of the key: a rebuilt extractor invalidates the cache
    drv = os.path.join(VERIF, "tools/mirfacts/src/main.rs")
    with open(drv, "rb") as fh:
        h.update(fh.read())
    return h.hexdigest()[:24]


class ExtractError(Exception):
    pass


def ensure_facts(repo=None):
    """Returns the directory holding the four fact files for the current tree."""
    repo = repo or REPO
    os.makedirs(os.path.join(CACHE, "facts"), exist_ok=True)
    key = tree_hash(repo)
    out = os.path.join(CACHE, "facts", key)
    lock = open(os.path.join(CACHE, "extract.lock"), "w")
    fcntl.flock(lock, fcntl.LOCK_EX)
    try:
        ok = all(os.path.isfile(os.path.join(out, c + ".json")) and os.path.getsize(os.path.join(out, c + ".json")) > 0 for c in CRATES)
        if not ok:
            tmp = out + ".tmp%d" % os.getpid()
            r = subprocess.run([os.path.join(VERIF, "bin/extract_facts.sh"), repo, tmp], capture_output=True, text=True)
            if r.returncode != 0:
                subprocess.run(["rm", "-rf", tmp])
                raise ExtractError(r.stdout + r.stderr)
            subprocess.run(["rm", "-rf", out])
            os.rename(tmp, out)
            # keep the cache bounded: drop all but the 1000 most recent fact dirs (about 4 MB each: the replay corpus has about 600 trees); parallel mutant
            # replays must not evict each other's facts while they are still being read
            ds = sorted((os.path.join(CACHE, "facts", d) for d in os.listdir(os.path.join(CACHE, "facts")) if ".tmp" not in d), key=os.path.getmtime)
            for d in ds[:-1000]:
                subprocess.run(["rm", "-rf", d])
    finally:
        fcntl.flock(lock, fcntl.LOCK_UN)
        lock.close()
    return out, key


class Program:
    """All four crates' facts, indexed."""

    def __init__(self, factdir):
        self.crates = {}
        self.fns = {}       # unique path -> fn record
        self.adts = {}      # pretty path -> adt record
        self.unsafe_sites = []
        self.statics = []        # (crate, {path, ty, mutable, thread_local, span})
        for c in CRATES:
            with open(os.path.join(factdir, c + ".json")) as fh:
                raw = fh.read()
            # rustc prints local items as `crate::…`; qualify them with the crate's name so
            # that the same item has the same pretty path from every crate.
            raw = re.sub(r"\bcrate::", c + "::", raw)
            j = json.loads(raw)
            self.crates[c] = j
            for f in j["fns"]:
                f["crate"] = c
                self.fns[f["path"]] = f
            for k, a in j["adts"].items():
                if a is not None and (k not in self.adts or a.get("local")):
                    self.adts[k] = a
            for u in j["unsafe_sites"]:
                self.unsafe_sites.append((c, u))
            for u in j.get("statics", []):
                self.statics.append((c, u))
        # workspace types with a Drop impl: `drop` terminators on such values run code
        self.drop_impls = {}
        for f in self.fns.values():
            imp = f.get("impl") or {}
            if imp.get("trait") == "core::ops::drop::Drop" and f.get("item") == "drop" and imp.get("self_adt"):
                self.drop_impls[imp["self_adt"]] = f

    # ---- semantic anchors -------------------------------------------------
    def find_fns(self, name=None, item=None, impl_trait=None, impl_self=None, trait_args=None, crate=None):
        out = []
        for f in self.fns.values():
            if crate and f["crate"] != crate:
                continue
            if name and f["name"] != name:
                continue
            if item and f.get("item") != item:
                continue
            imp = f.get("impl")
            if impl_trait is not None:
                if not imp or imp.get("trait") != impl_trait:
                    continue
            if impl_self is not None:
                if not imp or imp.get("self_adt") != impl_self:
                    continue
            if trait_args is not None:
                if not imp or [strip_lifetimes(x) for x in imp.get("trait_args", [])] != trait_args:
                    continue
            out.append(f)
        return out

    def inherent(self, adt, item):
        """Inherent method `item` on ADT (pretty path)."""
        r = [f for f in self.fns.values() if f.get("item") == item and f.get("impl") and f["impl"].get("self_adt") == adt and "trait" not in f["impl"]]
        return r

    def closures_of(self, path):
        return [f for f in self.fns.values() if f.get("parent") == path and f["kind"] == "Closure"]


def strip_lifetimes(s):
    import re
    s = re.sub(r"<'[a-z_]+>", "", s)
    s = re.sub(r"'[a-z_]+,\s*", "", s)
    s = re.sub(r"&'[a-z_]+ ", "&", s)
    return s


def loc(span):
    if not span:
        return "?"
    f = span.get("file", "?")
    if f.startswith(REPO + "/"):
        f = f[len(REPO) + 1:]
    return "%s:%s" % (f, span.get("line"))


# ---- pretty printer (debugging aid) ----------------------------------------

def pp_place(p):
    s = "_%d" % p["local"]
    for e in p["proj"]:
        k = e["k"]
        if k == "deref":
            s = "(*%s)" % s
        elif k == "field":
            s = "%s.%s" % (s, e["name"] if e["name"] is not None else e["i"])
        elif k == "index":
            s = "%s[_%d]" % (s, e["local"])
        elif k == "cindex":
            s = "%s[%s%d of %d]" % (s, "-" if e["from_end"] else "", e["offset"], e["min_length"])
        elif k == "subslice":
            s = "%s[%d..%s%d]" % (s, e["from"], "-" if e["from_end"] else "", e["to"])
        elif k == "downcast":
            s = "(%s as %s)" % (s, e["name"])
        else:
            s = "%s.<%s>" % (s, k)
    return s


def pp_const(c):
    if "fn" in c:
        f = c["fn"]
        r = f.get("resolved")
        nm = f["name"]
        if r and r["name"] != nm:
            nm += " => " + r["name"]
        return "fn(%s)" % nm
    v = c.get("val")
    if v is None:
        if "promoted" in c:
            return "promoted[%d]" % c["promoted"]
        return "const?(%s)" % c["ty"]["s"]
    if v["k"] == "int":
        return "%d_%s" % (v["val"], c["ty"]["s"])
    if v["k"] == "zst":
        return "zst(%s)" % c["ty"]["s"]
    if v["k"] in ("ptr", "slice", "indirect"):
        to = v["to"]
        if to.get("k") == "alloc":
            b = bytes(to["bytes"])
            if v["k"] == "slice":
                b = b[:v["len"]]
            return "&%r%s" % (b[:40], "+ptrs" if to["ptrs"] else "")
        return "&<%s>" % to.get("k")
    return "const(%s)" % v["k"]


def pp_op(o):
    if o["op"] in ("copy", "move"):
        return ("move " if o["op"] == "move" else "") + pp_place(o["place"])
    if o["op"] == "const":
        return pp_const(o)
    return "?" + o.get("s", "")


def pp_rv(r):
    k = r["rv"]
    if k == "use":
        return pp_op(r["x"])
    if k == "ref":
        return "&%s%s" % ("mut " if r["mut"] else "", pp_place(r["place"]))
    if k == "cast":
        return "%s as %s (%s)" % (pp_op(r["x"]), r["ty"]["s"], r["kind"])
    if k == "binop":
        return "%s(%s, %s)" % (r["o"], pp_op(r["a"]), pp_op(r["b"]))
    if k == "unop":
        return "%s(%s)" % (r["o"], pp_op(r["a"]))
    if k == "discr":
        return "discriminant(%s)" % pp_place(r["place"])
    if k == "aggregate":
        if r["agg"] == "adt":
            return "%s::%s{%s}" % (r["adt"], r["vname"], ", ".join(pp_op(o) for o in r["ops"]))
        return "%s(%s)" % (r["agg"], ", ".join(pp_op(o) for o in r["ops"]))
    if k == "repeat":
        return "[%s; %s]" % (pp_op(r["x"]), r["count"])
    if k == "rawptr":
        return "&raw %s" % pp_place(r["place"])
    return "?" + r.get("s", k)


def pp_fn(f, out=sys.stdout, body=None, title=None):
    b = body or f["body"]
    out.write("fn %s  [%s]  args=%d  %s\n" % (title or f["name"], f["path"], b["arg_count"], loc(f["span"])))
    for l in b["locals"]:
        out.write("    let _%d: %s\n" % (l["i"], l["ty"]["s"]))
    for v in b["vars"]:
        out.write("    debug %s => %s\n" % (v["name"], pp_place(v["place"])))
    for blk in b["blocks"]:
        out.write("  bb%d%s:\n" % (blk["i"], " (cleanup)" if blk["cleanup"] else ""))
        for st in blk["stmts"]:
            if st["st"] == "assign":
                out.write("    %s = %s\n" % (pp_place(st["place"]), pp_rv(st["rvalue"])))
            elif st["st"] == "setdiscr":
                out.write("    discriminant(%s) = %d\n" % (pp_place(st["place"]), st["variant"]))
            else:
                out.write("    ?%s\n" % st.get("s"))
        t = blk["term"]
        k = t["t"]
        if k == "goto":
            out.write("    goto bb%d\n" % t["target"])
        elif k == "switch":
            out.write("    switch %s [%s, otherwise bb%d]\n" % (pp_op(t["discr"]), ", ".join("%d:bb%d" % (a, b2) for a, b2 in t["arms"]), t["otherwise"]))
        elif k == "call":
            out.write("    %s = %s(%s) -> %s   @%s\n" % (pp_place(t["dest"]), pp_op(t["func"]), ", ".join(pp_op(a) for a in t["args"]), "bb%d" % t["target"] if t["target"] is not None else "!", loc(t["span"])))
        elif k == "assert":
            out.write("    assert(%s == %s, %s(%s)) -> bb%d\n" % (pp_op(t["cond"]), t["expected"], t["msg"], ", ".join(pp_op(a) for a in t["msg_ops"]), t["target"]))
        elif k == "drop":
            out.write("    drop(%s) -> bb%d\n" % (pp_place(t["place"]), t["target"]))
        else:
            out.write("    %s %s\n" % (k, t.get("s", "")))
    for p in f.get("promoted", []):
        if body is None:
            pp_fn(f, out, body=p["body"], title="%s::promoted[%d]" % (f["name"], p["idx"]))


if __name__ == "__main__":
    d, key = ensure_facts()
    prog = Program(d)
    pat = sys.argv[1] if len(sys.argv) > 1 else None
    if pat is None:
        for f in sorted(prog.fns.values(), key=lambda f: f["path"]):
            imp = f.get("impl") or {}
            print(f["path"], "|", f["name"], "|", f.get("vis"), "|", imp.get("trait_ref"), imp.get("self_adt"))
    else:
        for f in sorted(prog.fns.values(), key=lambda f: f["path"]):
            if pat in f["path"] or pat in f["name"]:
                pp_fn(f)
                print()
