"""C12 — a virtual sign never panics (A4 panic-site inventory from the two process_message entry points)."""
import re
from a4 import PanicInventory, site_of
from mireval import Unsupported, fmt_term, term_type
from models import Models
from facts import loc
import p_vsign

FMT_TRAITS = {"display": "core::fmt::Display", "debug": "core::fmt::Debug", "upper_hex": "core::fmt::UpperHex", "lower_hex": "core::fmt::LowerHex"}


def is_page_term(t):
    ty = term_type(t) or ""
    if ty.startswith("flipdot_core::page::Page"):
        return True
    if t[0] == "proj" and t[2][0] == "deref":
        b = t[1]
        if b[0] == "item" and b[1][0] == "iter" and b[1][1] == "slice":
            vt = term_type(b[1][2]) or ""
            if vt.startswith("alloc::vec::Vec<flipdot_core::page::Page"):
                return True
        bt = term_type(b) or ""
        if re.match(r"^&('[a-z_]+ )?(mut )?flipdot_core::page::Page", bt):
            return True
    return False


def inventory(prog, entries_extra=(), log_settings=(True, False)):
    models = Models(prog)
    inv = PanicInventory(prog, models, log_on=True, page_terms=is_page_term)
    pm = prog.inherent(p_vsign.VSIGN, "process_message")
    bus = [f for f in prog.fns.values() if f.get("item") == "process_message" and (f.get("impl") or {}).get("self_adt") == p_vsign.VBUS and (f.get("impl") or {}).get("trait") == "flipdot_core::sign_bus::SignBus"]
    if len(pm) != 1 or len(bus) != 1:
        raise Unsupported("C12 anchors: VirtualSign::process_message x%d, impl SignBus for VirtualSignBus x%d" % (len(pm), len(bus)))
    for log_on in log_settings:
        inv.log_on = log_on
        inv.no_inline = None
        inv.run_entry(pm[0])
        inv.no_inline = lambda f: f["path"] == pm[0]["path"]   # analysed above for every self/message
        inv.run_entry(bus[0])
    # formatting impls reached through fmt::Arguments (address-taken, so not in the call graph)
    done = set()
    inv.log_on = True
    inv.no_inline = None
    generated = []
    while True:
        todo = [t for t in sorted(inv.fmt_types, key=str) if t not in done]
        if not todo:
            break
        for t in todo:
            done.add(t)
            kind, tys, adt = t
            trait = FMT_TRAITS.get(kind)
            if not adt or not trait:
                continue
            impls = [f for f in prog.fns.values() if f.get("item") == "fmt" and (f.get("impl") or {}).get("trait") == trait and (f.get("impl") or {}).get("self_adt") == adt]
            for f in impls:
                if f["impl"].get("automatically_derived"):
                    generated.append(f["name"])
                inv.run_entry(f)
    return inv, pm[0], bus[0], generated


def run_c12(chk, prog):
    chk.notes.append("A4: every path of VirtualSign::process_message (all handlers, Page::from_bytes, SignType::from_bytes inlined) and of the bus loop is enumerated over fully "
                     "symbolic sign state and message, at both logging extremes, plus every hand-written fmt impl reachable through formatting arguments; each panic-capable construct "
                     "on a path is an obligation that must be discharged by rules D1-D6.")
    inv, pm, bus, generated = inventory(prog)
    n = 0
    kinds = {}
    for key, o in sorted(inv.obs.items()):
        n += 1
        kinds[o.kind] = kinds.get(o.kind, 0) + 1
        ok = o.discharged is not None and not o.failed
        chk.ob("C12." + o.kind.split(":")[0], "%s in %s: %s" % (o.kind, o.fn, o.desc if not ok else (o.desc + " — " + o.discharged)), ok,
               key="panic-site:%s" % o.key, where=o.where, detail=None if ok else o.failed[0])
    chk.extra["panic_sites_by_kind"] = kinds
    chk.extra["paths_enumerated"] = inv.paths
    chk.extra["generated_fmt_impls_analysed"] = sorted(set(generated))
    chk.note_analysed("functions", sorted(inv.functions))
    chk.floor("C12", "panic-capable sites inventoried", n, 8)
    handlers = [f for f in inv.functions if "VirtualSign::<'_>::" in f]
    chk.floor("C12", "VirtualSign functions reached", len(handlers), 1)
    chk.assumptions.append("allocation failure / capacity overflow are outside the property")
    for o in list(inv.obs.values())[:8]:
        chk.sample({"site": o.where, "fn": o.fn, "kind": o.kind, "what": o.desc, "discharged_by": o.discharged})
