"""A7 — arithmetic canonical forms: polynomials over Z with floor/ceil-division atoms.

Rewrite set (fixed): AC of + and *, constant folding, (e + (k-1)) / k == cdiv(e, k), e >> c == e / 2^c,
e & (2^c - 1) == e % 2^c == e - 2^c * (e / 2^c), div_ceil(e,k) == cdiv(e,k), next_multiple_of(e,k) == k*cdiv(e,k),
widening casts transparent.  Code and specification are compared in canonical form only.
"""
from mireval import fmt_term, term_type, int_bits


class NotCanon(Exception):
    pass


def strip_wide_cast(t):
    """cast:usize(x) with x of a narrower unsigned type is transparent"""
    while t[0] == "app" and t[1].startswith("cast:") and len(t[2]) == 1:
        to_bits, to_signed = int_bits(t[1][5:])
        inner = t[2][0]
        ity = infer_type(inner)
        ib, isg = int_bits(ity or "")
        if to_bits and ib and ib <= to_bits and not isg:
            t = inner
            continue
        break
    return t


def infer_type(t):
    """integer type of a term: its own annotation, a cast's target, or the (homogeneous) operand type of an arithmetic operator"""
    ty = term_type(t)
    if ty:
        return ty
    if t[0] == "int":
        return t[2]
    if t[0] == "app":
        if t[1].startswith("cast:"):
            return t[1][5:]
        if t[1] in ("Add", "Sub", "Mul", "Div", "Rem", "Shr", "Shl", "BitAnd", "BitOr", "BitXor", "div_ceil", "next_multiple_of", "min", "max") and t[2]:
            for x in t[2][:1] if t[1] in ("Shr", "Shl") else t[2]:
                r = infer_type(x)
                if r:
                    return r
    return None


# polynomial: dict {monomial: coeff}; monomial = tuple(sorted(atom reprs)) with atoms kept in a side table
class Poly:
    def __init__(self, terms=None):
        self.t = dict(terms or {})

    @staticmethod
    def const(c):
        return Poly({(): c} if c else {})

    @staticmethod
    def atom(a):
        return Poly({(a,): 1})

    def add(self, o, k=1):
        r = dict(self.t)
        for m, c in o.t.items():
            r[m] = r.get(m, 0) + k * c
            if r[m] == 0:
                del r[m]
        return Poly(r)

    def mul(self, o):
        r = {}
        for m1, c1 in self.t.items():
            for m2, c2 in o.t.items():
                m = tuple(sorted(m1 + m2, key=repr))
                r[m] = r.get(m, 0) + c1 * c2
                if r[m] == 0:
                    del r[m]
        return Poly(r)

    def key(self):
        return tuple(sorted(self.t.items(), key=repr))

    def is_const(self):
        return all(m == () for m in self.t)

    def const_val(self):
        return self.t.get((), 0)

    def __eq__(self, o):
        return isinstance(o, Poly) and self.t == o.t

    def __repr__(self):
        if not self.t:
            return "0"
        parts = []
        for m, c in sorted(self.t.items(), key=repr):
            fs = [show_atom(a) for a in m]
            if c != 1 or not fs:
                fs = [str(c)] + fs
            parts.append("*".join(fs))
        return " + ".join(parts)


def show_atom(a):
    if a[0] == "var":
        return fmt_term(a[1])
    if a[0] in ("fdiv", "cdiv"):
        return "%s(%r, %d)" % ("floor" if a[0] == "fdiv" else "ceil", Poly(dict(a[1])), a[2])
    return repr(a)


def fdiv(p, k):
    """floor(p / k) for k > 0 constant"""
    if p.is_const():
        return Poly.const(p.const_val() // k)
    # all coefficients divisible
    if all(c % k == 0 for c in p.t.values()):
        return Poly({m: c // k for m, c in p.t.items()})
    c0 = p.const_val()
    rest = Poly({m: c for m, c in p.t.items() if m != ()})
    if c0 >= k - 1:
        # floor((e + (k-1)) / k) == ceil(e / k) for integer e >= 0, with e = rest + (c0 - (k-1))
        return cdiv(rest.add(Poly.const(c0 - (k - 1))), k)
    if c0 == 0:
        return Poly.atom(("fdiv", rest.key(), k))
    # floor((rest + c0)/k) with other constants: keep as an opaque floor atom (not rewritten further)
    return Poly.atom(("fdiv", p.key(), k))


def cdiv(p, k):
    if p.is_const():
        return Poly.const(-((-p.const_val()) // k))
    if all(c % k == 0 for c in p.t.values()):
        return Poly({m: c // k for m, c in p.t.items()})
    return Poly.atom(("cdiv", p.key(), k))


def canon(t):
    t = strip_wide_cast(t)
    k = t[0]
    if k == "int":
        return Poly.const(t[1])
    if k == "app":
        op = t[1]
        if op in ("Add", "Sub", "Mul") and len(t[2]) == 2:
            a, b = canon(t[2][0]), canon(t[2][1])
            if op == "Add":
                return a.add(b)
            if op == "Sub":
                return a.add(b, -1)
            return a.mul(b)
        if op == "Div" and t[2][1][0] == "int" and t[2][1][1] > 0:
            return fdiv(canon(t[2][0]), t[2][1][1])
        if op == "Shr" and t[2][1][0] == "int":
            return fdiv(canon(t[2][0]), 1 << t[2][1][1])
        if op == "Shl" and t[2][1][0] == "int":
            return canon(t[2][0]).mul(Poly.const(1 << t[2][1][1]))
        if op == "Rem" and t[2][1][0] == "int" and t[2][1][1] > 0:
            m = t[2][1][1]
            a = canon(t[2][0])
            return a.add(fdiv(a, m).mul(Poly.const(m)), -1)
        if op == "BitAnd" and t[2][1][0] == "int" and t[2][1][1] > 0 and ((~t[2][1][1]) & ((1 << 64) - 1)) + 1 & ((~t[2][1][1]) & ((1 << 64) - 1)) == 0 and t[2][1][1] >= (1 << 63):
            # e & !(2^c - 1)  ==  2^c * floor(e / 2^c)   (mask with all bits above c set, 64-bit usize)
            low = (~t[2][1][1]) & ((1 << 64) - 1)
            k2 = low + 1
            return fdiv(canon(t[2][0]), k2).mul(Poly.const(k2))
        if op == "BitAnd" and t[2][1][0] == "int" and (t[2][1][1] + 1) & t[2][1][1] == 0:
            m = t[2][1][1] + 1
            a = canon(t[2][0])
            return a.add(fdiv(a, m).mul(Poly.const(m)), -1)
        if op == "div_ceil" and t[2][1][0] == "int" and t[2][1][1] > 0:
            return cdiv(canon(t[2][0]), t[2][1][1])
        if op == "next_multiple_of" and t[2][1][0] == "int" and t[2][1][1] > 0:
            return cdiv(canon(t[2][0]), t[2][1][1]).mul(Poly.const(t[2][1][1]))
        if op.startswith("cast:"):
            # narrowing cast: opaque
            return Poly.atom(("var", t))
    return Poly.atom(("var", t))


def var_poly(term):
    return Poly.atom(("var", strip_wide_cast(term)))


def spec_bytes_per_column(h):
    return cdiv(var_poly(h), 8)


def spec_data_bytes(w, h):
    return Poly.const(4).add(var_poly(w).mul(spec_bytes_per_column(h)))


def spec_total_bytes(w, h):
    return cdiv(spec_data_bytes(w, h), 16).mul(Poly.const(16))


def spec_byte_index(x, y, h):
    return Poly.const(4).add(var_poly(x).mul(spec_bytes_per_column(h))).add(fdiv(var_poly(y), 8))


def layout_index_form(idx):
    """If idx is canonically 4 + x*ceil(h/8) + floor(y/8), return (x, y, h) terms."""
    p = canon(idx)
    if p.t.get((), 0) != 4 or len(p.t) != 3:
        return None
    x = y = h = None
    for m, c in p.t.items():
        if m == ():
            continue
        if c != 1:
            return None
        if len(m) == 1 and m[0][0] == "fdiv" and m[0][2] == 8:
            inner = dict(m[0][1])
            if len(inner) == 1:
                (mm, cc), = inner.items()
                if cc == 1 and len(mm) == 1 and mm[0][0] == "var":
                    y = mm[0][1]
        elif len(m) == 2:
            vs = [a for a in m if a[0] == "var"]
            cs = [a for a in m if a[0] == "cdiv" and a[2] == 8]
            if len(vs) == 1 and len(cs) == 1:
                inner = dict(cs[0][1])
                if len(inner) == 1:
                    (mm, cc), = inner.items()
                    if cc == 1 and len(mm) == 1 and mm[0][0] == "var":
                        x = vs[0][1]
                        h = mm[0][1]
    if x is None or y is None or h is None:
        return None
    return (x, y, h)
