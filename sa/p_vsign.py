"""Virtual sign: decision table of VirtualSign::process_message (A1) and the rules of C13 / C14 built on it."""
import itertools
from mireval import Evaluator, Unsupported, fmt_term, mk_int
from models import Models
from facts import loc
from p_msgmap import norm, norm_cons

VSIGN = "flipdot_testing::virtual_sign_bus::VirtualSign"
VBUS = "flipdot_testing::virtual_sign_bus::VirtualSignBus"
MSG = "flipdot_core::message::Message"
STATE = "flipdot_core::message::State"
OP = "flipdot_core::message::Operation"
FLIP = "flipdot_core::page::PageFlipStyle"

RECEIVING = ("ConfigInProgress", "PixelsInProgress")
ADDRESSED = ("Hello", "QueryState", "ReportState", "RequestOperation", "AckOperation", "PixelsComplete", "Goodbye")


def no_inline(f):
    return f["name"] in ("flipdot_core::sign_type::SignType::from_bytes", "flipdot_core::page::Page::<'a>::from_bytes")


class SignTable:
    """Rows of the extracted table; each row = admitted feature values + effect summary."""

    def __init__(self, prog, log_on=False):
        self.prog = prog
        self.models = Models(prog)
        fns = prog.inherent(VSIGN, "process_message")
        if len(fns) != 1:
            raise Unsupported("anchor VirtualSign::process_message: %d found" % len(fns))
        self.fn = fns[0]
        a = prog.adts[VSIGN]
        self.fields = [f["name"] for f in a["variants"][0]["fields"]]
        for need in ("address", "flip_style", "state", "pages", "pending_data", "data_chunks", "width", "height", "sign_type"):
            if need not in self.fields:
                raise Unsupported("VirtualSign has no field `%s`" % need)
        self.states = [v["name"] for v in prog.adts[STATE]["variants"]]
        self.ops = [v["name"] for v in prog.adts[OP]["variants"]]
        self.kinds = [v["name"] for v in prog.adts[MSG]["variants"]]
        self.flips = [v["name"] for v in prog.adts[FLIP]["variants"]]
        self.ev = Evaluator(prog, self.models, log_on=log_on, no_inline=no_inline)
        self.selfsym = norm(("sym", "*self", VSIGN))
        self.msgsym = norm(("sym", "*message", MSG + "<'_>"))
        self.paths = self.ev.run(self.fn)
        self.problems = []
        self.rows = []
        for p in self.paths:
            if p.kind == "loopback":
                continue  # subsumed by the widened iteration's own exit paths
            self.rows.append(self.summarise(p))

    # -- canonical terms -----------------------------------------------------------
    def sf(self, name):
        return norm(("proj", self.selfsym, ("field", self.fields.index(name))))

    def mvar(self, kind):
        idx = self.kinds.index(kind)
        return norm(("proj", self.msgsym, ("downcast", idx)))

    def mfield(self, kind, i):
        return norm(("proj", self.mvar(kind), ("field", i)))

    def data_slice(self):
        return norm(("app", "cow_slice", (("proj", self.mfield("SendData", 1), ("field", 0)),)))

    def variant_names(self, adt, dom):
        vs = self.prog.adts[adt]["variants"]
        allv = {(v["discr"] if v["discr"] is not None else v["idx"]): v["name"] for v in vs}
        if dom is None:
            return frozenset(allv.values())
        if dom[0] == "in":
            return frozenset(allv[d] for d in dom[1] if d in allv)
        return frozenset(n for d, n in allv.items() if d not in dom[1])

    # -- one path -> row -----------------------------------------------------------
    def summarise(self, p):
        cons = norm_cons(p.cons)
        feats = {}
        unknown = []
        slice_t = self.data_slice()
        off_t = norm(("proj", self.mfield("SendData", 0), ("field", 0)))
        cnt_t = norm(("proj", self.mfield("DataChunksSent", 0), ("field", 0)))
        known_terms = {}
        known_terms[("discr", norm(self.msgsym))] = ("kind", lambda d: self.variant_names(MSG, d))
        known_terms[("discr", self.mfield("RequestOperation", 1))] = ("op", lambda d: self.variant_names(OP, d))
        known_terms[("discr", self.sf("state"))] = ("state", lambda d: self.variant_names(STATE, d))
        known_terms[("discr", self.sf("flip_style"))] = ("flip", lambda d: self.variant_names(FLIP, d))
        known_terms[off_t] = ("off0", lambda d: zero_dom(d))
        known_terms[("len", slice_t)] = ("len16", lambda d: val_dom(d, 16))
        known_terms[norm(("proj", slice_t, ("index", mk_int(0, "usize"))))] = ("family", lambda d: family_dom(d))
        known_terms[("len", self.sf("pending_data"))] = ("pending_empty", lambda d: zero_dom(d))
        known_terms[("app", "Gt", (self.sf("width"), mk_int(0, "u32")))] = ("wpos", bool_dom)
        known_terms[("app", "Gt", (self.sf("height"), mk_int(0, "u32")))] = ("hpos", bool_dom)
        derived_ok = set()
        derived_ok.add(("app", "Eq", (off_t, mk_int(0, "u16"))))
        derived_ok.add(("app", "Eq", (("len", slice_t), mk_int(16, "usize"))))
        derived_ok.add(("app", "Eq", (("len", self.sf("pending_data")), mk_int(0, "usize"))))
        derived_ok.add(("app", "Ne", (self.sf("width"), mk_int(0, "u32"))))
        derived_ok.add(("app", "Ne", (self.sf("height"), mk_int(0, "u32"))))
        # address comparisons
        for k in ADDRESSED + ("DataChunksSent",):
            pass
        page_ret = None
        for e in p.trace:
            if e[0] == "call" and e[1].endswith("Page::<'a>::from_bytes"):
                page_ret = norm(e[3])
        def recognised(tn):
            if tn in known_terms or tn in derived_ok:
                return True
            if tn[0] == "deq" and tn[1] in known_terms:
                return True
            if tn[0] == "app" and tn[1] in ("Eq", "Ne", "Gt", "Lt", "Ge", "Le") and len(tn[2]) == 2:
                a, b = tn[2]
                if (a in known_terms and b[0] == "int") or (b in known_terms and a[0] == "int"):
                    return True
            if tn[0] == "and":
                return all(recognised(x) for x in tn[1])
            if tn[0] == "app" and tn[1] == "Not" and len(tn[2]) == 1:
                return recognised(tn[2][0])
            return False

        for (t, v, w) in p.decisions:
            tn = norm(t)
            while tn[0] == "app" and tn[1] == "Not" and len(tn[2]) == 1 and v in (0, 1):
                tn, v = tn[2][0], 1 - v
            if recognised(tn):
                continue
            if tn[0] == "app" and tn[1] == "Ne" and len(tn[2]) == 2 and v in (0, 1):
                tn, v = ("app", "Eq", tn[2]), 1 - v
            if tn[0] == "eq" or (tn[0] == "app" and tn[1] == "Eq" and len(tn[2]) == 2 and tn[2][0][0] != "int" and tn[2][1][0] != "int"):
                pair = {tn[1], tn[2]} if tn[0] == "eq" else set(tn[2])
                # comparisons of the wrapped integers (`a.0 == b.0`) are comparisons of the newtypes
                def unwrap0(t_):
                    return t_[1] if (t_[0] == "proj" and t_[2] == ("field", 0)) else None
                if all(unwrap0(x) is not None for x in pair) and len(pair) == 2:
                    cand = {unwrap0(x) for x in pair}
                    if self.sf("address") in cand or cnt_t in pair:
                        pair = cand if self.sf("address") in cand else pair
                if self.sf("address") in pair:
                    other = (pair - {self.sf("address")}).pop()
                    kinds = [k for k in ADDRESSED if other == self.mfield(k, 0)]
                    if kinds:
                        feats["own"] = frozenset([bool(v)])
                        feats.setdefault("own_kind", set()).add(kinds[0])
                        continue
                if pair == {cnt_t, self.sf("data_chunks")}:
                    feats["counteq"] = frozenset([bool(v)])
                    continue
            if tn[0] == "app" and tn[1] == "has_next" and tn[2][0] == ("iter", "slice", self.sf("pages")):
                continue  # logging loop over the stored pages
            if tn[0] == "discr" and tn[1][0] == "app" and tn[1][1] == "ok":
                continue  # logging choice on the decoded sign type
            if page_ret is not None and tn == ("discr", page_ret):
                feats["page_ok"] = frozenset([v == 0])
                continue
            if tn[0] == "app" and tn[1] in ("Eq", "Ne", "Gt") and any(tn[2][0] == kt for kt in (self.sf("width"), self.sf("height"))):
                # width/height positivity written as != 0 or > 0
                nm = "wpos" if tn[2][0] == self.sf("width") else "hpos"
                if tn[2][1] == mk_int(0, "u32"):
                    pos = bool(v) if tn[1] in ("Gt", "Ne") else not bool(v)
                    feats[nm] = frozenset([pos])
                    continue
            unknown.append((tn, v, w))
        for tn, (name, conv) in known_terms.items():
            d = cons.get(tn)
            if d is not None:
                feats[name] = conv(d)
        # message kinds that carry an address but were matched without testing it
        row = {"feats": feats, "path": p, "unknown": unknown, "kind": p.kind}
        row["effect"] = self.effect(p)
        return row

    def effect(self, p):
        """Effect summary of a path (None for panicking paths)."""
        if p.kind != "return":
            return {"panic": p.info}
        h = p.heap["*self"]
        if h[0] != "adt":
            return {"opaque_self": fmt_term(h)}
        f = {n: norm(h[4][i]) for i, n in enumerate(self.fields)}
        eff = {}
        U = "unchanged"
        # reply
        v = p.value
        if v[0] == "adt" and v[3] == "None":
            eff["reply"] = None
        elif v[0] == "adt" and v[3] == "Some" and v[4][0][0] == "adt" and v[4][0][1] == MSG:
            m = v[4][0]
            addr_ok = norm(m[4][0]) == self.sf("address") if m[4] else False
            if m[3] == "ReportState":
                st = norm(m[4][1])
                stv = "pre-state" if st == self.sf("state") else (st[3] if st[0] == "adt" else fmt_term(st))
                eff["reply"] = ("ReportState", "own-address" if addr_ok else fmt_term(m[4][0]), stv)
            elif m[3] == "AckOperation":
                o = m[4][1]
                if o[0] != "adt":
                    # the operation is passed through as a value: which one it is follows from the path's tests on it
                    dk = p.cons.get(("discr", o))
                    if dk is not None and dk[0] == "in" and len(dk[1]) == 1:
                        vv = self.ev.variant_by_discr("flipdot_core::message::Operation", next(iter(dk[1])))
                        if vv:
                            o = ("adt", "flipdot_core::message::Operation", vv["idx"], vv["name"], ())
                eff["reply"] = ("AckOperation", "own-address" if addr_ok else fmt_term(m[4][0]), o[3] if o[0] == "adt" else fmt_term(o))
            else:
                eff["reply"] = ("other", fmt_term(m))
        else:
            eff["reply"] = ("other", fmt_term(v))
        # state
        s = f["state"]
        eff["state"] = U if s == self.sf("state") else (s[3] if s[0] == "adt" else fmt_term(s))
        # pages
        pg = f["pages"]
        if pg == self.sf("pages"):
            eff["pages"] = U
        elif pg == ("seq", ()):
            eff["pages"] = "cleared"
        elif pg[0] == "seq" and len(pg[1]) == 2 and pg[1][0] == ("splice", self.sf("pages")) and pg[1][1][0] == "elem":
            eff["pages"] = "push"
            eff["pushed"] = pg[1][1][1]
        elif pg[0] == "seq" and len(pg[1]) == 1 and pg[1][0][0] == "elem":
            eff["pages"] = "cleared+push"
            eff["pushed"] = pg[1][0][1]
        else:
            eff["pages"] = fmt_term(pg)
        # pending
        pd = f["pending_data"]
        dsl = self.data_slice()
        if pd == self.sf("pending_data"):
            eff["pending"] = U
        elif pd == ("seq", ()):
            eff["pending"] = "cleared"
        elif pd == ("seq", (("splice", self.sf("pending_data")), ("splice", dsl))):
            eff["pending"] = "append"
        elif pd == ("seq", (("splice", dsl),)):
            eff["pending"] = "set"
        else:
            eff["pending"] = fmt_term(pd)
        # counter
        c = f["data_chunks"]
        old = self.sf("data_chunks")
        if c == old:
            eff["counter"] = U
        elif c == mk_int(0, "u16"):
            eff["counter"] = "0"
        elif c in (("app", "Add", (old, mk_int(1, "u16"))), ("app", "wrapping_add", (old, mk_int(1, "u16")))):
            eff["counter"] = "+1"
        else:
            eff["counter"] = fmt_term(c)
        # dims / type
        w, hh = f["width"], f["height"]
        if w == self.sf("width") and hh == self.sf("height"):
            eff["dims"] = U
        elif w == mk_int(0, "u32") and hh == mk_int(0, "u32"):
            eff["dims"] = "0"
        elif mentions_only(w, dsl) and mentions_only(hh, dsl):
            eff["dims"] = "from-data"
        else:
            eff["dims"] = "%s x %s" % (fmt_term(w), fmt_term(hh))
        t = f["sign_type"]
        if t == self.sf("sign_type"):
            eff["type"] = U
        elif t[0] == "adt" and t[3] == "None":
            eff["type"] = "None"
        elif t[0] == "app" and t[1] == "ok":
            eff["type"] = "from-data"
        else:
            eff["type"] = fmt_term(t)
        for n in ("address", "flip_style"):
            if f[n] != self.sf(n):
                eff[n] = fmt_term(f[n])
        return eff


def mentions_only(t, dsl):
    """term is built from constants and the message's data slice only"""
    if t == dsl:
        return True
    if not isinstance(t, tuple) or not t:
        return True
    if isinstance(t[0], tuple):
        return all(mentions_only(x, dsl) for x in t)      # an argument tuple: every element counts
    if t[0] == "sym":
        return False
    if t[0] == "proj" and t[1] == dsl:
        return True
    if t[0] == "int":
        return True
    return all(mentions_only(x, dsl) for x in t[1:] if isinstance(x, tuple))


def zero_dom(d):
    if d[0] == "in":
        return frozenset([v == 0 for v in d[1]])
    if 0 in d[1]:
        return frozenset([False])
    return frozenset([True, False])


def val_dom(d, val):
    if d[0] == "in":
        return frozenset([v == val for v in d[1]])
    if val in d[1]:
        return frozenset([False])
    return frozenset([True, False])


def family_dom(d):
    def cls(v):
        return v if v in (4, 8) else "other"
    if d[0] == "in":
        return frozenset(cls(v) for v in d[1])
    out = set([4, 8, "other"])
    for v in d[1]:
        if v in (4, 8):
            out.discard(v)
    return frozenset(out)


def bool_dom(d):
    if d[0] == "in":
        return frozenset(bool(v) for v in d[1])
    return frozenset(bool(v) for v in (0, 1) if v not in d[1])


# ---- reference sign machine (DESIGN.md Appendix B) ------------------------------------------
LEGAL = {
    "ReceiveConfig": ("Unconfigured", "ConfigFailed"),
    "ReceivePixels": ("ConfigReceived", "PixelsFailed", "PageLoaded", "PageLoadInProgress", "PageShown", "PageShowInProgress", "ShowingPages"),
    "ShowLoadedPage": ("PageLoaded",),
    "LoadNextPage": ("PageShown",),
    "StartReset": None,  # all states
    "FinishReset": ("ReadyToReset",),
}
NEXT = {"ReceiveConfig": "ConfigInProgress", "ReceivePixels": "PixelsInProgress", "ShowLoadedPage": "PageShowInProgress",
        "LoadNextPage": "PageLoadInProgress", "StartReset": "ReadyToReset"}
U = "unchanged"
NOTHING = {"reply": None, "state": U, "pages": U, "pending": U, "counter": U, "dims": U, "type": U}
RESET = {"state": "Unconfigured", "pages": "cleared", "pending": "cleared", "counter": "0", "dims": "0", "type": "None"}


def ref_flush(fv, eff):
    """flush: pending (if non-empty) becomes one page iff a size is configured and the bytes are a whole page."""
    if fv["pending_empty"]:
        return
    eff["pending"] = "cleared"
    if fv["wpos"] and fv["hpos"]:
        if fv["page_ok"]:
            eff["pages"] = "push"
        else:
            eff["state"] = "PixelsFailed"


def ref_step(fv):
    eff = dict(NOTHING)
    k = fv["kind"]
    st = fv["state"]
    if k in ("Hello", "QueryState"):
        if fv["own"]:
            eff["reply"] = ("ReportState", "own-address", "pre-state")
            if st == "PageLoadInProgress":
                eff["state"] = "PageLoaded"
            elif st == "PageShowInProgress":
                eff["state"] = "PageShown"
        return eff
    if k == "RequestOperation":
        if not fv["own"]:
            return eff
        op = fv["op"]
        legal = LEGAL[op]
        if legal is not None and st not in legal:
            return eff
        eff["reply"] = ("AckOperation", "own-address", op)
        if op == "FinishReset":
            eff.update(RESET)
        else:
            eff["state"] = NEXT[op]
        if op == "ReceivePixels":
            eff["pages"] = "cleared"
            eff["pending"] = "cleared"     # a new transfer starts from clean bookkeeping
            eff["counter"] = "0"
        return eff
    if k == "PixelsComplete":
        if fv["own"] and st == "PixelsReceived":
            eff["state"] = "ShowingPages" if fv["flip"] == "Automatic" else "PageLoaded"
        return eff
    if k == "Goodbye":
        if fv["own"]:
            eff.update(RESET)
        return eff
    if k == "SendData":
        if st == "ConfigInProgress":
            if fv["off0"] and fv["len16"] and fv["family"] in (4, 8):
                eff["dims"] = "from-data"
                eff["type"] = "from-data"
                eff["counter"] = "+1"
            return eff
        if st == "PixelsInProgress":
            if fv["off0"]:
                ref_flush(fv, eff)
            eff["pending"] = "set" if (fv["off0"] and not fv["pending_empty"]) else "append"
            eff["counter"] = "+1"
            return eff
        return eff
    if k == "DataChunksSent":
        if st == "ConfigInProgress":
            eff["state"] = "ConfigReceived" if fv["counteq"] else "ConfigFailed"
        elif st == "PixelsInProgress":
            eff["state"] = "PixelsReceived" if fv["counteq"] else "PixelsFailed"
        else:
            return eff
        ref_flush(fv, eff)
        eff["counter"] = "0"
        return eff
    return eff  # ReportState, AckOperation, Unknown: not for a sign


def relevant_features(kind, st):
    """Which features the reference consults for this message kind (others are don't-care)."""
    f = ["kind", "state"]
    if kind in ("Hello", "QueryState", "PixelsComplete", "Goodbye", "RequestOperation", "ReportState", "AckOperation"):
        f.append("own")
    if kind == "RequestOperation":
        f.append("op")
    if kind == "PixelsComplete":
        f.append("flip")
    if kind == "SendData":
        f += ["off0", "len16", "family", "pending_empty", "wpos", "hpos", "page_ok"]
    if kind == "DataChunksSent":
        f += ["counteq", "pending_empty", "wpos", "hpos", "page_ok"]
    return f


UNIVERSE = {"own": (True, False), "off0": (True, False), "len16": (True, False), "family": (4, 8, "other"), "counteq": (True, False),
            "pending_empty": (True, False), "wpos": (True, False), "hpos": (True, False), "page_ok": (True, False)}


def feature_vectors(tab):
    """All abstract (sign state, message class) combinations the reference distinguishes."""
    for kind in tab.kinds:
        for st in tab.states:
            names = relevant_features(kind, st)
            doms = []
            for n in names:
                if n == "kind":
                    doms.append((kind,))
                elif n == "state":
                    doms.append((st,))
                elif n == "op":
                    doms.append(tuple(tab.ops))
                elif n == "flip":
                    doms.append(tuple(tab.flips))
                else:
                    doms.append(UNIVERSE[n])
            for combo in itertools.product(*doms):
                fv = dict(zip(names, combo))
                yield fv


def row_admits(row, fv):
    for n, v in fv.items():
        d = row["feats"].get(n)
        if d is not None and v not in d:
            return False
    return True


def eff_project(eff):
    return {k: eff.get(k) for k in ("reply", "state", "pages", "pending", "counter", "dims", "type")}


def compare_tables(chk, tab, rule, tag=""):
    """C13.O1: extracted table == reference machine on every feature vector."""
    where = loc(tab.fn["span"])
    for r in tab.rows:
        for (t, v, w) in r["unknown"]:
            chk.unproven(rule + ".cell-space", "vsign:foreign-term:%s" % fmt_term(t)[:80],
                         "VirtualSign::process_message branches on %s, which is not one of the sign-machine features" % fmt_term(t), w)
    n = 0
    mism = {}
    for fv in feature_vectors(tab):
        n += 1
        rows = [r for r in tab.rows if row_admits(r, fv)]
        want = ref_step(dict({"own": None, "op": None, "flip": None, "off0": None, "len16": None, "family": None, "counteq": None,
                              "pending_empty": None, "wpos": None, "hpos": None, "page_ok": None}, **fv))
        if not rows:
            mism.setdefault(("no-path", fv["kind"], fv.get("op")), []).append((fv, None, want))
            continue
        for r in rows:
            eff = r["effect"]
            if "panic" in eff:
                mism.setdefault(("panic", fv["kind"], fv.get("op"), str(eff["panic"])), []).append((fv, eff, want))
                continue
            got = eff_project(eff)
            if fv.get("pending_empty") is True and got.get("pending") == "cleared" and want.get("pending") == "unchanged":
                got = dict(got, pending="unchanged")       # clearing (or taking) a buffer known to be empty changes nothing
            if fv.get("pending_empty") is True and {got.get("pending"), want.get("pending")} == {"set", "append"}:
                got = dict(got, pending=want.get("pending"))  # appending the chunk to an empty buffer == replacing the buffer by it
            if got != want or any(k in eff for k in ("address", "flip_style")):
                diff = tuple(sorted(k for k in want if got.get(k) != want[k])) + tuple(k for k in ("address", "flip_style") if k in eff)
                mism.setdefault(("diff", fv["kind"], fv.get("op"), diff, tuple((k, str(got.get(k))) for k in diff)), []).append((fv, got, want))
    chk.extra["sign_feature_vectors" + tag] = n
    for key, items in sorted(mism.items(), key=repr):
        fv, got, want = items[0]
        sts = sorted(set(i[0]["state"] for i in items))
        if key[0] == "no-path":
            msg = "no extracted path covers %s%s in states %s" % (key[1], "(%s)" % key[2] if key[2] else "", sts)
        elif key[0] == "panic":
            msg = "%s%s in states %s can panic (%s) where the reference machine continues, e.g. for %s" % (key[1], "(%s)" % key[2] if key[2] else "", sts, key[3], fv_desc(fv))
        else:
            msg = "%s%s in states %s: %s differ from the reference machine (e.g. %s: got %s, reference %s)" % (
                key[1], "(%s)" % key[2] if key[2] else "", sts if len(sts) <= 6 else "%d states" % len(sts), list(key[3]), fv_desc(fv),
                {k: got.get(k) for k in key[3] if k in got}, {k: want.get(k) for k in key[3] if k in want})
        k2 = "vsign:%s:%s:%s:%s" % (key[0], key[1], key[2], ",".join(key[3]) if key[0] == "diff" else (key[3] if key[0] == "panic" else ""))
        chk.ob(rule, msg, False, key=k2 + ":" + ",".join(sts if len(sts) <= 3 else [str(len(sts))]), where=where)
    if not mism:
        chk.ob(rule, "extracted sign table%s equals the reference machine on all %d abstract (state x message class x condition) vectors" % (tag, n), True, where=where)
    return n


def fv_desc(fv):
    return ", ".join("%s=%s" % (k, v) for k, v in fv.items() if k not in ("kind",))


# ---- C13 ----------------------------------------------------------------------------------
def run_c13(chk, prog):
    chk.notes.append("A1: VirtualSign::process_message and all its handlers are inlined and every path is summarised as (conditions on message kind/"
                     "operation/address equality/state/flip style/offset/length/family/count equality/buffer state) -> (reply, field writes). The table is compared with the "
                     "reference sign machine (DESIGN.md Appendix B) on every abstract vector, at both logging extremes; reassembly writers (A5) are checked on the same paths.")
    total = 0
    for log_on in (False, True):
        tab = SignTable(prog, log_on=log_on)
        tag = " (logging on)" if log_on else ""
        total += compare_tables(chk, tab, "C13.O1", tag)
        chk.extra["sign_paths" + tag] = len(tab.paths)
        reassembly_rules(chk, tab, "C13.O2")
    chk.floor("C13.O1", "abstract vectors compared", total, 2 * 13 * 20)
    # "stored pages are always complete pages of the configured size": what Page::from_bytes accepts is part of the clause
    include_page_rules(chk, prog, "C13.page")
    # "pages of the configured size": the size a sign derives from a configuration block is C19.O3 (every type's block gives
    # exactly that type's dimensions); a leg of this property as well
    import p_signtype
    nd = chk.include("C13.dims", p_signtype.run_c19_tables, prog, keep=lambda r: r.startswith("C19.O3"))
    chk.floor("C13.dims", "obligations on the size a sign derives from a configuration block (C19.O3)", nd, 11)
    chk.note_analysed("functions", [tab.fn["name"]] + sorted(tab.ev.stats["inlined"]))
    for r in tab.rows[:6]:
        chk.sample({"conditions": {k: sorted(map(str, v)) if isinstance(v, (set, frozenset)) else str(v) for k, v in r["feats"].items()}, "effect": {k: str(v) for k, v in eff_project(r["effect"]).items()} if "panic" not in r["effect"] else r["effect"]})


def reassembly_rules(chk, tab, rule):
    """pages only receives Page::from_bytes(self.width, self.height, <whole pending buffer>) successes, appended at the end."""
    where = loc(tab.fn["span"])
    n = 0
    for r in tab.rows:
        eff = r["effect"]
        p = r["path"]
        if eff.get("pages") in ("push", "cleared+push"):
            n += 1
            calls = [e for e in p.trace if e[0] == "call" and e[1].endswith("Page::<'a>::from_bytes")]
            ok = len(calls) == 1
            why = ""
            if ok:
                c = calls[0]
                args = [norm(a) for a in c[2]]
                ret = norm(c[3])
                pushed = eff["pushed"]
                okv = pushed in (("unwrap", ret), norm(("proj", ("proj", ret, ("downcast", 0, "Ok")), ("field", 0, "?"))))
                if not okv:
                    ok, why = False, "pushed value %s is not the Ok result of Page::from_bytes" % fmt_term(pushed)
                elif args[0] != tab.sf("width") or args[1] != tab.sf("height"):
                    ok, why = False, "page built with %s x %s, not the configured width x height" % (fmt_term(args[0]), fmt_term(args[1]))
                elif args[2] != tab.sf("pending_data"):
                    ok, why = False, "page built from %s, not the whole pending buffer" % fmt_term(args[2])
            else:
                why = "%d Page::from_bytes calls on the path" % len(calls)
            chk.ob(rule, "a stored page is Page::from_bytes(self.width, self.height, <whole pending buffer>) appended at the end", ok,
                   key="vsign:reassembly:%s" % why[:60], where=where, detail=why)
        if eff.get("pages") not in ("unchanged", "cleared", "push", None) and "panic" not in eff:
            chk.ob(rule, "pages is only cleared or appended to", False, key="vsign:pages-write:%s" % str(eff.get("pages"))[:60], where=where, detail=str(eff.get("pages")))
        if eff.get("pending") not in ("unchanged", "cleared", "append", "set", None) and "panic" not in eff:
            chk.ob(rule, "pending data is only cleared, or extended with the message's own bytes", False, key="vsign:pending-write:%s" % str(eff.get("pending"))[:60], where=where, detail=str(eff.get("pending")))
    chk.floor(rule, "page-storing paths", n, 1)


# ---- C14 ----------------------------------------------------------------------------------
def include_page_rules(chk, prog, tag):
    import p_page
    n = chk.include(tag, p_page.run_c07, prog, keep=lambda r: r.startswith("C07.O3") or r.startswith("C07.O1"))
    chk.floor(tag, "obligations on Page::from_bytes / Page::new (what a complete page of the configured size is)", n, 10)


def run_c14(chk, prog):
    chk.notes.append("A1/A2 on the extracted sign table, reference-free: (O1) every path that replies or writes for an addressed message kind took the "
                     "address-equality edge; (O2) every reply carries self.address; (O3) every path that writes for an unaddressed kind (SendData, DataChunksSent) is "
                     "restricted to the receiving states; (O4) the bus loop offers the message to the signs in order and returns the first reply.")
    n_arm = 0
    for log_on in (False, True):
        tab = SignTable(prog, log_on=log_on)
        where = loc(tab.fn["span"])
        tag = " (logging on)" if log_on else ""
        arms = set()
        for r in tab.rows:
            eff = r["effect"]
            f = r["feats"]
            kinds = f.get("kind", frozenset(tab.kinds))
            if "panic" in eff:
                continue  # C12's concern
            changed = sorted(k for k, v in eff_project(eff).items() if k != "reply" and v != "unchanged")
            replies = eff.get("reply") is not None
            acts = bool(changed) or replies
            addressed = [k for k in kinds if k in ADDRESSED]
            unaddressed = [k for k in kinds if k not in ADDRESSED and k != "Unknown"]
            if acts and addressed:
                ok = f.get("own") == frozenset([True]) and len(kinds) == 1
                ops = f.get("op")
                name = "%s%s" % ("/".join(sorted(kinds)), "(%s)" % "/".join(sorted(ops)) if ops and len(ops) < 6 else "")
                if ok:
                    arms.add(name)
                chk.ob("C14.O1", "path acting on %s%s (writes %s%s) is guarded by message.address == self.address" % (name, tag, changed, ", replies" if replies else ""), ok,
                       key="vsign:unguarded:%s" % name, where=where,
                       detail=None if ok else "conditions on the path: %s" % {k: sorted(map(str, v)) for k, v in f.items() if isinstance(v, frozenset)})
            if replies:
                rep = eff["reply"]
                ok = rep[0] in ("ReportState", "AckOperation") and rep[1] == "own-address"
                chk.ob("C14.O2", "reply %s%s carries the sign's own address" % (rep[0], tag), ok, key="vsign:reply-address:%s" % rep[0], where=where, detail=str(rep))
            if acts and unaddressed:
                sts = f.get("state", frozenset(tab.states))
                ok = sts <= frozenset(RECEIVING) and not replies
                chk.ob("C14.O3", "path acting on unaddressed %s%s (writes %s) is restricted to receiving states" % ("/".join(sorted(unaddressed)), tag, changed), ok,
                       key="vsign:ungated:%s:%s" % ("/".join(sorted(unaddressed)), ",".join(changed)), where=where,
                       detail=None if ok else "admitted states: %s" % sorted(sts))
            if acts and not addressed and not unaddressed:
                chk.ob("C14.O1", "no action on unknown/unspecified message kinds", False, key="vsign:acts-on-unknown", where=where, detail=str(sorted(kinds)))
        n_arm = max(n_arm, len(arms))
        chk.extra["guarded_arms" + tag] = sorted(arms)
    chk.floor("C14.O1", "guarded addressed arms (Hello, QueryState, 6 operations, PixelsComplete, Goodbye)", n_arm, 10)
    bus_loop(chk, prog)
    chk.note_analysed("functions", [tab.fn["name"]] + sorted(tab.ev.stats["inlined"]))


def bus_loop(chk, prog):
    """C14.O4: VirtualSignBus::process_message offers the message to every sign in order and returns the first Some."""
    models = Models(prog)
    fns = [f for f in prog.fns.values() if f.get("item") == "process_message" and (f.get("impl") or {}).get("self_adt") == VBUS and (f.get("impl") or {}).get("trait") == "flipdot_core::sign_bus::SignBus"]
    if len(fns) != 1:
        chk.ob("C14.O4", "impl SignBus for VirtualSignBus found", False, key="anchor:vbus")
        return
    fn = fns[0]
    where = loc(fn["span"])
    for log_on in (False, True):
        ev = Evaluator(prog, models, log_on=log_on, no_inline=lambda f: f.get("item") == "process_message" and (f.get("impl") or {}).get("self_adt") == VSIGN)
        paths = ev.run(fn)
        a = prog.adts[VBUS]
        signs_i = [f["name"] for f in a["variants"][0]["fields"]].index("signs")
        signs_t = norm(("proj", ("sym", "*self", VBUS), ("field", signs_i)))
        n_ret = 0
        for p in paths:
            if p.kind == "loopback":
                continue
            if p.kind != "return":
                chk.ob("C14.O4", "bus loop has no panicking path", False, key="vbus:panic:%s" % p.info, where=where)
                continue
            calls = [e for e in p.trace if e[0] == "call" and e[1].endswith("VirtualSign::<'_>::process_message")]
            widened = any(e[0] == "widen" for e in p.trace)
            # every call is on an item of self.signs with the bus's own message
            for c in calls:
                recv = c[2][0]
                okr = recv[0] == "ref" and recv[1][0] == "val" and norm(recv[1][1])[0] == "proj" and norm(recv[1][1])[1][0] == "item" and norm(recv[1][1])[1][1] in (("iter", "slice", signs_t), ("iter", "slice_mut", signs_t))
                okm = c[2][1][0] == "ref" and c[2][1][1][0] == "loc"
                chk.ob("C14.O4", "each sign call is `item of self.signs`.process_message(&message)", okr and okm, key="vbus:call-shape", where=c[4], detail=fmt_term(recv))
            v = p.value
            dec = [(norm(t), val) for (t, val, w) in p.decisions]
            if v[0] == "adt" and v[3] == "Ok" and v[4][0][0] == "adt" and v[4][0][3] == "None":
                # Ok(None): only through loop exhaustion, every sign's reply on the path was None
                exhausted = any(t[0] == "app" and t[1] == "has_next" and val == 0 for t, val in dec)
                all_none = all(any(t == ("discr", norm(c[3])) and val == 0 for t, val in dec) for c in calls)
                chk.ob("C14.O4", "Ok(None) only after every sign was offered the message and none replied", exhausted and all_none, key="vbus:none-shape", where=where)
                n_ret += 1
            elif v[0] == "adt" and v[3] == "Ok" and v[4][0][0] == "adt" and v[4][0][3] == "Some":
                last = calls[-1] if calls else None
                inner = norm(v[4][0][4][0])
                okl = last is not None and inner in (norm(("proj", ("proj", last[3], ("downcast", 1, "Some")), ("field", 0, "?"))), ("unwrap", norm(last[3])))
                earlier_none = all(any(t == ("discr", norm(c[3])) and val == 0 for t, val in dec) for c in calls[:-1]) or widened
                chk.ob("C14.O4", "Ok(Some(r)) returns the reply of the first sign that answered, unchanged", okl and earlier_none, key="vbus:some-shape", where=where,
                       detail=fmt_term(v))
                n_ret += 1
            else:
                chk.ob("C14.O4", "bus returns Ok(None) or Ok(Some(reply))", False, key="vbus:ret-shape:%s" % fmt_term(v)[:40], where=where)
            others = [e for e in p.trace if e[0] in ("write", "store") or (e[0] == "call" and e not in calls)]
            chk.ob("C14.O4", "the bus touches the signs only through process_message", not others, key="vbus:other-effects", where=where, detail=str(others[:1]))
        chk.floor("C14.O4", "bus return paths%s" % (" (logging on)" if log_on else ""), n_ret, 2)
    chk.note_analysed("functions", [fn["name"]])
