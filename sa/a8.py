"""A8 — protocol-automaton extraction for the controller (`Sign`'s public operations).

Nodes = bus-call sites x inlined call stack x control-relevant concrete integers (e.g. the attempt counter);
the reply of each bus call is a fresh symbol; edges carry the code's own tests of that reply.  States reaching the
same node are joined (differing locals are widened) and the node is re-explored until a fixpoint.
"""
from mireval import Evaluator, Unsupported, Path, State, fmt_term, mk_int
from models import Models
from facts import loc

BUS_CALL = "flipdot_core::sign_bus::SignBus::process_message"


def rewrite(t, f):
    """bottom-up term rewrite"""
    if not isinstance(t, tuple):
        return t
    r = f(t)
    if r is not None:
        return r
    return tuple(rewrite(x, f) for x in t)


def join_term(a, b, wname):
    """structural join: equal parts are kept, differing leaves become one widened symbol per position"""
    if a == b:
        return a
    if a[0] == "sym" and a[1].startswith(wname):
        return a
    if a[0] == "adt" and b[0] == "adt" and a[1] == b[1] and a[2] == b[2] and len(a[4]) == len(b[4]):
        return ("adt", a[1], a[2], a[3], tuple(join_term(x, y, "%s.%d" % (wname, i)) for i, (x, y) in enumerate(zip(a[4], b[4]))))
    if a[0] == "tuple" and b[0] == "tuple" and len(a[1]) == len(b[1]):
        return ("tuple", tuple(join_term(x, y, "%s.%d" % (wname, i)) for i, (x, y) in enumerate(zip(a[1], b[1]))))
    return ("sym", wname, "?")


class Node:
    def __init__(self, key, nid):
        self.key = key
        self.id = nid
        self.state = None
        self.ci = None
        self.edges = []
        self.message = None
        self.visits = 0
        self.where = None


class Edge:
    def __init__(self, src, decisions, cons, dst=None, outcome=None, value=None, state=None, info=None):
        self.src = src
        self.decisions = decisions
        self.cons = cons
        self.dst = dst
        self.outcome = outcome   # 'return' | 'panic'
        self.value = value
        self.state = state
        self.info = info


def iter_remaining(v):
    """number of items left in an iterator over a table of known small length, else None"""
    if not isinstance(v, tuple) or not v:
        return None
    if v[0] == "adt" and v[1].endswith("ops::range::Range") and len(v[4]) == 2 and v[4][0][0] == "int" and v[4][1][0] == "int":
        n = v[4][1][1] - v[4][0][1]
        return max(n, 0) if n <= 32 else None
    if v[0] != "iter":
        return None
    if v[1] in ("slice", "array"):
        x = v[2]
        if x[0] in ("array", "bytes") and len(x[1]) <= 32:
            return len(x[1])
        if x[0] == "app" and x[1] == "subslice" and x[2][1][0] == "int" and x[2][2][0] == "int" and x[2][2][1] - x[2][1][1] <= 32:
            return max(x[2][2][1] - x[2][1][1], 0)
        return None
    if v[1] in ("copied", "cloned", "enumerate"):
        return iter_remaining(v[2])
    return None


class ProtocolGraph:
    MAX_NODES = 400

    def __init__(self, prog, entry, models=None, no_inline=None, log_on=False):
        self.prog = prog
        self.entry = entry
        self.models = models or Models(prog)
        self.ev = Evaluator(prog, self.models, log_on=log_on, no_inline=no_inline or (lambda f: False),
                            hooks={(lambda ci: ci.name == BUS_CALL or (ci.orig_name == BUS_CALL and (ci.fnj.get("resolved") or {}).get("path") not in prog.fns)): (lambda ci: ("suspend",))})
        self.ev.widen_loops = True   # loops that can spin without emitting (empty items) are widened inside a segment; visits reset at every node
        self.nodes = {}
        self.order = []
        self.start_edges = []
        self._ctl = {}
        self.build()

    # ---- control-relevant user integer locals of a function ---------------------------
    def control_locals(self, fn):
        key = fn["path"]
        if key in self._ctl:
            return self._ctl[key]
        body = fn["body"]
        user = {}
        for v in body["vars"]:
            p = v["place"]
            if not p["proj"] and body["locals"][p["local"]]["ty"]["k"] == "int":
                user[p["local"]] = v["name"]
        deps = {}
        sw = set()

        def op_locals(o):
            if o.get("op") in ("copy", "move"):
                return {o["place"]["local"]}
            return set()
        for b in body["blocks"]:
            if b["cleanup"]:
                continue
            for s in b["stmts"]:
                if s["st"] != "assign":
                    continue
                l = s["place"]["local"]
                r = s["rvalue"]
                src = set()
                for k in ("x", "a", "b"):
                    if k in r:
                        src |= op_locals(r[k])
                if "place" in r:
                    src.add(r["place"]["local"])
                for o in r.get("ops", []):
                    src |= op_locals(o)
                deps.setdefault(l, set()).update(src)
            t = b["term"]
            if t["t"] == "switch":
                sw |= op_locals(t["discr"])
        seen = set()
        work = list(sw)
        while work:
            l = work.pop()
            if l in seen:
                continue
            seen.add(l)
            work.extend(deps.get(l, ()))
        ctl = {l: n for l, n in user.items() if l in seen}
        self._ctl[key] = ctl
        return ctl

    # ---- canonical state ----------------------------------------------------------------
    def canon(self, st):
        """Renumber frames by stack position, drop dead frames."""
        m = {a.fid: i for i, a in enumerate(st.stack)}

        def f(t):
            if t and t[0] == "loc" and len(t) == 4 and isinstance(t[1], int):
                if t[1] in m:
                    return ("loc", m[t[1]], t[2], rewrite(t[3], f))
                return ("loc", -1, t[2], rewrite(t[3], f))
            return None
        ns = State()
        ns.frames = {m[fid]: {l: rewrite(v, f) for l, v in fr.items()} for fid, fr in st.frames.items() if fid in m}
        ns.stack = [a.copy() for a in st.stack]
        for i, a in enumerate(ns.stack):
            a.fid = i
            a.visits = {}
        ns.heap = {k: rewrite(v, f) for k, v in st.heap.items()}
        ns.cons = {rewrite(k, f): v for k, v in st.cons.items()}
        ns.next_fid = len(ns.stack)
        ns.fresh = st.fresh
        ns.aux = dict(st.aux)
        return ns, f

    def node_key(self, st):
        parts = []
        for a in st.stack:
            ctl = self.control_locals(a.fn) if not a.title else {}
            ints = tuple(sorted((l, st.frames[a.fid][l][1]) for l in ctl if l in st.frames[a.fid] and st.frames[a.fid][l][0] == "int"))
            # a loop over a table of known length is control state too: how many entries are left
            its = tuple(sorted((l, r) for l, v in st.frames[a.fid].items() for r in (iter_remaining(v),) if r is not None))
            parts.append((a.fn["path"], a.block, ints + its))
        return tuple(parts)

    def join(self, node, st):
        """Join `st` into node.state; returns True if node.state changed."""
        old = node.state
        changed = False
        for fid, fr in st.frames.items():
            ofr = old.frames.get(fid)
            if ofr is None:
                raise Unsupported("A8: stack shape differs at a merge")
            for l, v in fr.items():
                ov = ofr.get(l)
                if ov is None:
                    continue
                if ov != v:
                    j = join_term(ov, v, "w@N%d:f%d:_%d" % (node.id, fid, l))
                    if ov != j:
                        ofr[l] = j
                        changed = True
            for l in list(ofr.keys()):
                if l not in fr:
                    del ofr[l]
        for c, v in st.heap.items():
            ov = old.heap.get(c)
            if ov != v:
                j = join_term(ov, v, "w@N%d:heap:%s" % (node.id, c))
                if ov != j:
                    old.heap[c] = j
                    changed = True
        # keep only the facts both arrivals agree on
        for k in list(old.cons.keys()):
            if st.cons.get(k) != old.cons[k]:
                del old.cons[k]
        return changed

    # ---- exploration -----------------------------------------------------------------------
    def build(self):
        st0 = self.initial_state()
        work = []
        for e in self.run_segment(None, st0):
            self.start_edges.append(e)
            if e.dst is not None:
                work.append(e.dst)
        seen_work = 0
        while work:
            key = work.pop()
            node = self.nodes[key]
            if not node.dirty:
                continue
            node.dirty = False
            node.visits += 1
            if node.visits > 12:
                raise Unsupported("A8: node %s does not stabilise" % (node.where,))
            seen_work += 1
            if seen_work > 5000:
                raise Unsupported("A8: exploration budget exceeded")
            node.edges = []
            st = node.state.fork()
            ci = node.ci
            reply = ("sym", "reply@N%d" % node.id, ci.dest["ty"])
            node.reply = reply
            act = st.stack[-1]
            for s2 in self.ev.finish_call(st, act, ci.dest, ci.target, reply, ci.w):
                if isinstance(s2, Path):
                    node.edges.append(Edge(node, (), {}, outcome=s2.kind, value=s2.value, state=s2.state, info=s2.info))
                    continue
                s2.decisions = ()
                s2.trace = ()
                for e in self.run_segment(node, s2):
                    node.edges.append(e)
                    if e.dst is not None and self.nodes[e.dst].dirty:
                        work.append(e.dst)

    def initial_state(self):
        ev = self.ev
        fn = self.entry
        body = fn["body"]
        st = State()
        argv = []
        names = {}
        for v in body["vars"]:
            p = v["place"]
            if not p["proj"] and 1 <= p["local"] <= body["arg_count"] and p["local"] not in names:
                names[p["local"]] = v["name"]
        for i in range(1, body["arg_count"] + 1):
            lt = body["locals"][i]["ty"]
            nm = names.get(i, "arg%d" % i)
            if lt["k"] == "ref":
                cell = "*" + nm
                st.heap[cell] = ev.materialize(("sym", cell, lt["inner"]["s"]), lt["inner"])
                argv.append(("ref", ("heap", cell, ()), lt["mut"]))
            else:
                argv.append(("sym", nm, lt["s"]))
        ev.push(st, fn, body, argv, None, None)
        return st

    def run_segment(self, src, st):
        """Run from `st` until each fork reaches a bus call, a return or a panic."""
        out = []
        for p in self.ev.explore(st):
            if p.kind == "suspended":
                ci = p.info
                cst, f = self.canon(p.state)
                key = self.node_key(cst)
                node = self.nodes.get(key)
                if node is None:
                    if len(self.nodes) >= self.MAX_NODES:
                        raise Unsupported("A8: more than %d protocol nodes (unbounded counter?)" % self.MAX_NODES)
                    node = Node(key, len(self.nodes))
                    node.state = cst
                    node.dirty = True
                    node.where = ci.w
                    self.nodes[key] = node
                    self.order.append(key)
                else:
                    if self.join(node, cst):
                        node.dirty = True
                # the call info is re-bound to the canonical state (same block / dest / target)
                node.ci = ci
                node.ci_args = [rewrite(a, f) for a in ci.args]
                out.append(Edge(src, p.decisions, dict(p.cons), dst=key, state=p.state, value=rewrite(ci.args[1], f) if len(ci.args) > 1 else None))
            else:
                out.append(Edge(src, p.decisions, dict(p.cons), outcome=p.kind, value=p.value, state=p.state, info=p.info))
        return out

    # ---- the message a node emits (evaluated in the node's joined state) ------------------
    def message_of(self, node):
        st = node.state
        act = st.stack[-1]
        term = act.body["blocks"][act.block]["term"]
        v = self.ev.operand(st, act, term["args"][1])
        return self.ev.detach(st, v)
