"""Check harness: obligations, violations, known findings, evidence files."""
import json
import os
import sys
import time

VERIF = os.path.dirname(os.path.dirname(os.path.abspath(__file__)))
EVID = os.path.join(VERIF, "evidence")
KNOWN = os.path.join(VERIF, "known_findings.json")

GLOBAL_TRUSTED = [
    "rustc 1.97.0-nightly front end, type checker and MIR construction (facts are read from optimized_mir at -Zmir-opt-level=0)",
    "opt-level-0 MIR preserves source semantics",
    "documented behaviour of the std/core/regex/serial-core/log functions given a model in sa/models.py (one citation per entry)",
    "64-bit usize; debug-profile overflow checks",
]


class Check:
    def __init__(self, pid, tier="quick", level="proof"):
        self.pid = pid
        self.tier = tier
        self.level = level
        self.t0 = time.time()
        self.obligations = []     # (id, desc, ok, detail)
        self.violations = []      # dict
        self.samples = []
        self.analysed = {}
        self.assumptions = []
        self.trusted = list(GLOBAL_TRUSTED)
        self.notes = []
        self.selftest_failures = []
        self.extra = {}
        try:
            self.seed = int(os.environ.get("VERIF_SEED", "0"))
        except ValueError:
            self.seed = 0

    # -- recording ---------------------------------------------------------------
    def ob(self, rule, desc, ok, key=None, where=None, detail=None):
        """One proof obligation. `key` identifies the construct without line numbers."""
        self.obligations.append({"rule": rule, "desc": desc, "ok": bool(ok), "where": where})
        if not ok:
            self.violation(rule, key or desc, desc if detail is None else "%s — %s" % (desc, detail), where)
        return ok

    def violation(self, rule, key, msg, where=None, extra=None):
        k = "%s|%s|%s" % (self.pid, rule, key)
        for v in self.violations:
            if v["key"] == k:
                return
        self.violations.append({"key": k, "rule": rule, "msg": msg, "where": where, "extra": extra})

    def unproven(self, rule, key, msg, where=None):
        self.obligations.append({"rule": rule, "desc": msg, "ok": False, "where": where})
        self.violation(rule, key, "UNPROVEN: " + msg, where)

    def floor(self, rule, what, count, minimum):
        self.ob(rule + ".floor", "%s: matched %d instance(s), floor %d" % (what, count, minimum), count >= minimum,
                key="floor:" + what)

    def include(self, tag, run_fn, prog, keep=None):
        """Run another property's rule set as a part of this one (a clause of this property that is the other property's
        subject, e.g. the wire leg of C05 is C01's codec).  Obligations and violations are re-labelled `<tag>(<rule>)`."""
        sub = Check(self.pid, self.tier, self.level)
        run_fn(sub, prog)
        n = 0
        for o in sub.obligations:
            if keep is None or keep(o["rule"]):
                self.obligations.append({"rule": "%s(%s)" % (tag, o["rule"]), "desc": o["desc"], "ok": o["ok"], "where": o["where"]})
                n += 1
        for v in sub.violations:
            if keep is None or keep(v["rule"]):
                self.violation("%s(%s)" % (tag, v["rule"]), v["key"].split("|", 2)[2], v["msg"], v["where"], v["extra"])
        for a in sub.assumptions:
            if a not in self.assumptions:
                self.assumptions.append(a)
        for k, items in sub.analysed.items():
            self.note_analysed(k, items)
        return n

    def sample(self, s):
        if len(self.samples) < 40:
            self.samples.append(s)

    def note_analysed(self, kind, items):
        self.analysed.setdefault(kind, [])
        for i in items:
            if i not in self.analysed[kind]:
                self.analysed[kind].append(i)

    # -- finishing ---------------------------------------------------------------
    def finish(self):
        known = {"findings": []}
        if os.path.isfile(KNOWN):
            with open(KNOWN) as fh:
                known = json.load(fh)
        open_keys = {f["key"]: f for f in known.get("findings", []) if f.get("status") == "open"}
        global EVID
        if os.environ.get("VERIF_NO_EVIDENCE"):
            EVID = os.path.join(VERIF, ".cache", "scratch-evidence")
        os.makedirs(os.path.join(EVID, "violations"), exist_ok=True)
        # stale replay files of this property
        for f in os.listdir(os.path.join(EVID, "violations")):
            if f.startswith(self.pid + "-"):
                try:
                    os.remove(os.path.join(EVID, "violations", f))
                except FileNotFoundError:
                    pass        # a concurrent run on another scratch tree (selftest replays share the scratch evidence directory)
        lines = []
        n_viol = 0
        n_known = 0
        for i, v in enumerate(self.violations):
            if v["key"] in open_keys:
                n_known += 1
                lines.append("KNOWN-FINDING: property=%s %s [%s] %s" % (self.pid, v["msg"], v["key"], v["where"] or ""))
                continue
            n_viol += 1
            rp = os.path.join(os.path.relpath(EVID, VERIF), "violations", "%s-%d.json" % (self.pid, n_viol))
            with open(os.path.join(VERIF, rp), "w") as fh:
                json.dump({"property": self.pid, "key": v["key"], "rule": v["rule"], "message": v["msg"], "where": v["where"],
                           "extra": v["extra"], "replay": "./check %s --tier %s" % (self.pid, self.tier)}, fh, indent=1, default=str)
            lines.append("  rule %s: %s  @ %s" % (v["rule"], v["msg"], v["where"] or "?"))
            lines.append("VIOLATION property=%s replay=%s" % (self.pid, rp))
        nob = len(self.obligations)
        ndis = sum(1 for o in self.obligations if o["ok"])
        cov = {
            "obligations": nob,
            "discharged": ndis,
            "checker_cmd": "./check %s --tier %s" % (self.pid, self.tier),
            "trusted_base": self.trusted,
            "samples": self.samples or [o["desc"] for o in self.obligations[:10]],
            "explanation": " ".join(self.notes),
            "analysed": self.analysed,
            "rules": sorted(set(o["rule"] for o in self.obligations)),
            "obligation_list": [{"rule": o["rule"], "desc": o["desc"], "ok": o["ok"], "where": o["where"]} for o in self.obligations][:400],
            "known_findings_matched": n_known,
            "exhaustive": True,
        }
        cov.update(self.extra)
        ev = {
            "property_id": self.pid,
            "tier": self.tier,
            "seed": self.seed,
            "level": self.level,
            "coverage": cov,
            "assumptions": self.assumptions,
            "wall_s": round(time.time() - self.t0, 3),
            "violations": n_viol,
        }
        if self.selftest_failures:
            ev["coverage"]["selftest_failures"] = self.selftest_failures
        os.makedirs(EVID, exist_ok=True)
        if not os.environ.get("VERIF_NO_EVIDENCE"):
            with open(os.path.join(EVID, self.pid + ".json"), "w") as fh:
                json.dump(ev, fh, indent=1, default=str)
        print("%s [%s]: %d obligations, %d discharged, %d violation(s), %d known finding(s), %.1fs" % (
            self.pid, self.tier, nob, ndis, n_viol, n_known, time.time() - self.t0))
        for l in lines:
            print(l)
        for s in self.selftest_failures:
            print("CHECKER-SELFTEST-FAILURE: %s" % s)
        if n_viol:
            return 1
        if self.selftest_failures:
            return 3
        return 0
