"""Check harness: obligations, violations, known findings, evidence files."""
import json
import os
import sys
import time

VERIF = os.path.dirname(os.path.dirname(os.path.abspath(__file__)))
EVID = os.path.join(VERIF, "evidence")
KNOWN = os.path.join(VERIF, "known_findings.json")

GLOBAL_TRUSTED = [
    "rustc 1.97.0-nightly front end, type checker and MIR construction (facts are read from optimized_mir at -Zmir-opt-level=0)",
    "opt-level-0 MIR preserves source semantics",
    "documented behaviour of the std/core/regex/serial-core/log functions given a model in sa/models.py (one citation per entry)",
    "64-bit usize; debug-profile overflow checks",
]


def config_guard(chk, repo):
    """G0: the analysed MIR is that of the default (dev) profile, which is also what `cargo test` builds.  Behaviour that
    depends on the build configuration (cfg!(debug_assertions), #[cfg(not(debug_assertions))], target / feature gates, profile
    overrides of overflow checks or the panic strategy) would make the verdict hold for one configuration only, so its
    presence in non-test library code is reported.  #[cfg(test)] (and doc/doctest) gates are not library behaviour."""
    import re
    n_files = 0
    allowed = re.compile(r"^\s*(test|doc|doctest)\s*$")
    pat = re.compile(r"(cfg!|#!?\[\s*cfg|cfg_attr)\s*\(")
    core, serial, testing, top = "libs/core/src", "libs/serial/src", "libs/testing/src", "src"
    scope = {"C08": (core, testing, top), "C09": (core, top), "C10": (core, top), "C11": (core, top), "C12": (core, testing), "C13": (core, testing),
             "C14": (core, testing), "C16": (core, serial), "C17": (core, serial, testing, top), "C18": (core, serial), "C20": (core, serial, testing)}
    roots = scope.get(chk.pid, (core,))     # the crates whose code the property's verdict depends on
    for root in roots:
        base = os.path.join(repo, root)
        for dp, dn, fs in os.walk(base):
            for f in sorted(fs):
                if not f.endswith(".rs"):
                    continue
                n_files += 1
                path = os.path.join(dp, f)
                text = open(path, errors="replace").read()
                for i, line in enumerate(text.splitlines(), 1):
                    code = line.split("//")[0]
                    for m in pat.finditer(code):
                        # argument up to the matching parenthesis on this line
                        depth, j = 1, m.end()
                        while j < len(code) and depth:
                            depth += code[j] == "("
                            depth -= code[j] == ")"
                            j += 1
                        arg = code[m.end():j - 1] if depth == 0 else code[m.end():]
                        if m.group(1) == "cfg_attr":
                            arg = arg.split(",")[0]
                        if not allowed.match(arg):
                            chk.unproven("G0.config", "cfg:%s:%s" % (os.path.relpath(path, repo), arg.strip()[:40]),
                                         "configuration-dependent code (%s(%s)) in library source: the analysis covers the default dev profile only" % (m.group(1).strip("#![ "), arg.strip()[:60]),
                                         "%s:%d" % (os.path.relpath(path, repo), i))
    for man in ("Cargo.toml", "libs/core/Cargo.toml", "libs/serial/Cargo.toml", "libs/testing/Cargo.toml", ".cargo/config.toml"):
        pth = os.path.join(repo, man)
        if not os.path.isfile(pth):
            continue
        for i, line in enumerate(open(pth, errors="replace").read().splitlines(), 1):
            code = line.split("#")[0].strip()
            if re.match(r"^\[profile\.", code) or re.match(r"^(overflow-checks|debug-assertions|panic|rustflags)\s*=", code):
                chk.unproven("G0.config", "profile:%s:%s" % (man, code[:40]), "build-profile override (%s) in %s: the analysis covers the default dev profile only" % (code[:60], man), "%s:%d" % (man, i))
    chk.ob("G0.config", "library sources scanned for configuration-dependent code (cfg other than test/doc, profile overrides)", n_files >= 5, key="G0:files", detail="%d files in %s" % (n_files, list(roots)))


def state_guard(chk, prog):
    """G1: every rule here judges one call from an arbitrary (symbolic) state of the *values involved*; state kept in a
    process-global or thread-local cell would be carried between calls outside that model.  A static is accepted when it is
    immutable and holds no interior mutability, or is a lazily initialised immutable value (lazy_static's Lazy / LazyLock
    around a type without interior mutability; lazy_static's zero-sized accessor type)."""
    crates = {"C08": ("flipdot_core", "flipdot_testing", "flipdot"), "C09": ("flipdot_core", "flipdot"), "C10": ("flipdot_core", "flipdot"), "C11": ("flipdot_core", "flipdot"),
              "C12": ("flipdot_core", "flipdot_testing"), "C13": ("flipdot_core", "flipdot_testing"), "C14": ("flipdot_core", "flipdot_testing"),
              "C16": ("flipdot_core", "flipdot_serial"), "C17": ("flipdot_core", "flipdot_serial", "flipdot_testing", "flipdot"), "C18": ("flipdot_core", "flipdot_serial"),
              "C19": ("flipdot_core", "flipdot_testing"),
              "C20": ("flipdot_core", "flipdot_serial", "flipdot_testing")}.get(chk.pid, ("flipdot_core",))
    import re
    cell = re.compile(r"\b(Cell|RefCell|UnsafeCell|OnceCell|OnceLock|Once|Mutex|RwLock|Atomic\w+|LocalKey|Storage|Condvar)\b")
    n = 0
    for c, s_ in prog.statics:
        if c not in crates:
            continue
        n += 1
        ty = s_["ty"]
        inner = ty
        m = re.match(r"^(?:lazy_static::lazy::Lazy|std::sync::(?:lazy_lock::)?LazyLock|core::cell::(?:lazy::)?LazyCell)<(.*)>$", ty)
        if m:
            inner = m.group(1).split(",")[0]
        bad = s_.get("mutable") or s_.get("thread_local") or bool(cell.search(inner))
        if bad:
            w = s_.get("span") or {}
            chk.unproven("G1.state", "static:%s" % s_["path"], "process-global or thread-local mutable state (static %s: %s): behaviour may depend on earlier calls, which the per-call analysis does not model"
                         % (s_["path"].split("::")[-1], ty[:80]), "%s:%s" % (w.get("file"), w.get("line")))
    chk.ob("G1.state", "statics of the crates this property depends on hold no state between calls (%d static(s): immutable or lazily initialised constants)" % n, True, key="G1:scan")
    # G2: the evaluator follows safe Rust's semantics only (no raw-pointer writes, transmutes, unchecked indexing): unsafe code in the
    # crates the verdict depends on is outside what it models
    nu = 0
    for c, u in prog.unsafe_sites:
        if c not in crates:
            continue
        nu += 1
        chk.unproven("G2.unsafe", "unsafe:%s" % u.get("file"), "unsafe code in a crate this property depends on (%s): the analysis models safe Rust only" % u.get("file"),
                     "%s:%s" % (u.get("file"), u.get("line")))
    chk.ob("G2.unsafe", "no unsafe code in the crates this property depends on", nu == 0, key="G2:scan")


_INCLUDE_MEMO = {}


class Check:
    def __init__(self, pid, tier="quick", level="proof"):
        self.pid = pid
        self.tier = tier
        self.level = level
        self.t0 = time.time()
        self.obligations = []     # (id, desc, ok, detail)
        self.violations = []      # dict
        self.samples = []
        self.analysed = {}
        self.assumptions = []
        self.trusted = list(GLOBAL_TRUSTED)
        self.notes = []
        self.selftest_failures = []
        self.extra = {}
        try:
            self.seed = int(os.environ.get("VERIF_SEED", "0"))
        except ValueError:
            self.seed = 0

    # -- recording ---------------------------------------------------------------
    def ob(self, rule, desc, ok, key=None, where=None, detail=None):
        """One proof obligation. `key` identifies the construct without line numbers."""
        self.obligations.append({"rule": rule, "desc": desc, "ok": bool(ok), "where": where})
        if not ok:
            self.violation(rule, key or desc, desc if detail is None else "%s — %s" % (desc, detail), where)
        return ok

    def violation(self, rule, key, msg, where=None, extra=None):
        k = "%s|%s|%s" % (self.pid, rule, key)
        for v in self.violations:
            if v["key"] == k:
                return
        self.violations.append({"key": k, "rule": rule, "msg": msg, "where": where, "extra": extra})

    def unproven(self, rule, key, msg, where=None):
        self.obligations.append({"rule": rule, "desc": msg, "ok": False, "where": where})
        self.violation(rule, key, "UNPROVEN: " + msg, where)

    def floor(self, rule, what, count, minimum):
        self.ob(rule + ".floor", "%s: matched %d instance(s), floor %d" % (what, count, minimum), count >= minimum,
                key="floor:" + what)

    def include(self, tag, run_fn, prog, keep=None, keep_ob=None):
        """Run another property's rule set as a part of this one (a clause of this property that is the other property's
        subject, e.g. the wire leg of C05 is C01's codec).  Obligations and violations are re-labelled `<tag>(<rule>)`."""
        # a rule set included by several legs of one check (C08 -> C09 -> C07, C08 -> C13 -> C07, ...) is decided once per process
        import mireval
        mk = (id(run_fn), getattr(run_fn, "__name__", repr(run_fn)), id(prog), mireval.DEFAULT_LOG_ON, getattr(sys.modules.get("p_ctrl"), "LOG_ON", None))
        sub = _INCLUDE_MEMO.get(mk) if "<lambda>" not in mk[1] else None
        if sub is None:
            sub = Check(self.pid, self.tier, self.level)
            run_fn(sub, prog)
            _INCLUDE_MEMO[mk] = sub
        n = 0
        # keep: by rule label; keep_ob: by (rule, description, location) for rule sets whose obligations are per construct
        for o in sub.obligations:
            if (keep is None or keep(o["rule"])) and (keep_ob is None or keep_ob(o["rule"], o["desc"], o["where"] or "")):
                self.obligations.append({"rule": "%s(%s)" % (tag, o["rule"]), "desc": o["desc"], "ok": o["ok"], "where": o["where"]})
                n += 1
        for v in sub.violations:
            if (keep is None or keep(v["rule"])) and (keep_ob is None or keep_ob(v["rule"], v["msg"], v["where"] or "")):
                self.violation("%s(%s)" % (tag, v["rule"]), v["key"].split("|", 2)[2], v["msg"], v["where"], v["extra"])
        for a in sub.assumptions:
            if a not in self.assumptions:
                self.assumptions.append(a)
        for k, items in sub.analysed.items():
            self.note_analysed(k, items)
        return n

    def sample(self, s):
        if len(self.samples) < 40:
            self.samples.append(s)

    def note_analysed(self, kind, items):
        self.analysed.setdefault(kind, [])
        for i in items:
            if i not in self.analysed[kind]:
                self.analysed[kind].append(i)

    # -- finishing ---------------------------------------------------------------
    def finish(self):
        known = {"findings": []}
        if os.path.isfile(KNOWN):
            with open(KNOWN) as fh:
                known = json.load(fh)
        open_keys = {f["key"]: f for f in known.get("findings", []) if f.get("status") == "open"}
        global EVID
        if os.environ.get("VERIF_NO_EVIDENCE"):
            EVID = os.path.join(VERIF, ".cache", "scratch-evidence")
        os.makedirs(os.path.join(EVID, "violations"), exist_ok=True)
        # stale replay files of this property
        for f in os.listdir(os.path.join(EVID, "violations")):
            if f.startswith(self.pid + "-"):
                try:
                    os.remove(os.path.join(EVID, "violations", f))
                except FileNotFoundError:
                    pass        # a concurrent run on another scratch tree (selftest replays share the scratch evidence directory)
        lines = []
        n_viol = 0
        n_known = 0
        for i, v in enumerate(self.violations):
            if v["key"] in open_keys:
                n_known += 1
                lines.append("KNOWN-FINDING: property=%s %s [%s] %s" % (self.pid, v["msg"], v["key"], v["where"] or ""))
                continue
            n_viol += 1
            rp = os.path.join(os.path.relpath(EVID, VERIF), "violations", "%s-%d.json" % (self.pid, n_viol))
            with open(os.path.join(VERIF, rp), "w") as fh:
                json.dump({"property": self.pid, "key": v["key"], "rule": v["rule"], "message": v["msg"], "where": v["where"],
                           "extra": v["extra"], "replay": "./check %s --tier %s" % (self.pid, self.tier)}, fh, indent=1, default=str)
            lines.append("  rule %s: %s  @ %s" % (v["rule"], v["msg"], v["where"] or "?"))
            lines.append("VIOLATION property=%s replay=%s" % (self.pid, rp))
        nob = len(self.obligations)
        ndis = sum(1 for o in self.obligations if o["ok"])
        cov = {
            "obligations": nob,
            "discharged": ndis,
            "checker_cmd": "./check %s --tier %s" % (self.pid, self.tier),
            "trusted_base": self.trusted,
            "samples": self.samples or [o["desc"] for o in self.obligations[:10]],
            "explanation": " ".join(self.notes),
            "analysed": self.analysed,
            "rules": sorted(set(o["rule"] for o in self.obligations)),
            "obligation_list": [{"rule": o["rule"], "desc": o["desc"], "ok": o["ok"], "where": o["where"]} for o in self.obligations][:400],
            "known_findings_matched": n_known,
            "exhaustive": True,
        }
        cov.update(self.extra)
        ev = {
            "property_id": self.pid,
            "tier": self.tier,
            "seed": self.seed,
            "level": self.level,
            "coverage": cov,
            "assumptions": self.assumptions,
            "wall_s": round(time.time() - self.t0, 3),
            "violations": n_viol,
        }
        if self.selftest_failures:
            ev["coverage"]["selftest_failures"] = self.selftest_failures
        os.makedirs(EVID, exist_ok=True)
        if not os.environ.get("VERIF_NO_EVIDENCE"):
            with open(os.path.join(EVID, self.pid + ".json"), "w") as fh:
                json.dump(ev, fh, indent=1, default=str)
        print("%s [%s]: %d obligations, %d discharged, %d violation(s), %d known finding(s), %.1fs" % (
            self.pid, self.tier, nob, ndis, n_viol, n_known, time.time() - self.t0))
        for l in lines:
            print(l)
        for s in self.selftest_failures:
            print("CHECKER-SELFTEST-FAILURE: %s" % s)
        if n_viol:
            return 1
        if self.selftest_failures:
            return 3
        return 0


def uses_log(prog, crates):
    """functions of the given crates that expand a log macro (they test log::max_level())"""
    out = []
    for f in prog.fns.values():
        if f.get("crate") not in crates or not f.get("body"):
            continue
        for b in f["body"]["blocks"]:
            t = b["term"]
            if t["t"] == "call" and t["func"].get("op") == "const" and "fn" in t["func"]:
                fj = t["func"]["fn"]
                if (fj.get("resolved") or fj)["name"].startswith("log::"):
                    out.append(f["name"])
                    break
    return out


def at_log_levels(*crates):
    """`log` macros evaluate their arguments only when the record is enabled, so code can behave differently with a logger
    installed. A rule set whose evaluators take the default level is decided at both extremes of log::max_level() whenever a
    function of the crates its verdict depends on uses a log macro (one pass otherwise: the level cannot matter)."""
    def deco(run):
        def wrapped(chk, prog):
            import mireval
            import p_frame
            users = uses_log(prog, crates)
            old = mireval.DEFAULT_LOG_ON
            try:
                for lo in ((False, True) if users else (False,)):
                    mireval.DEFAULT_LOG_ON = lo
                    p_frame._REGEX_CACHE.clear()
                    run(chk, prog)
            finally:
                mireval.DEFAULT_LOG_ON = old
                p_frame._REGEX_CACHE.clear()
            if users:
                chk.assumptions.append("decided at both extremes of the log level (log macros in: %s)" % ", ".join(sorted(set(u.split("::")[-1] for u in users))[:6]))
        wrapped.__name__ = run.__name__
        wrapped.__doc__ = run.__doc__
        return wrapped
    return deco
