"""Thorough tier = quick rules (already run) plus validation of the checker itself:
 (i)  compile_fail witnesses with their compiling twins (C01, C06, C07);
 (ii) replay of the mutant corpus for the property: every seeded change (seeded/*, produced by independent sub-agents or reverts of
      the fix: commits) and every self-test mutant (selftest/mutants.py) that this property's check is expected to report is applied to a
      scratch copy of the CURRENT /repo tree outside /repo and /verif, facts are re-extracted, and the quick rules must report a violation;
 (iii) (C12) the A4 inventory must cover the panic-capable source constructs clippy's restriction lints list in the analysed functions.
A checker self-test failure makes the run exit 3 without a VIOLATION line for the property; a patch that no longer applies is skipped and listed."""
import glob
import json
import os
import re
import shutil
import subprocess
import sys
import tempfile
from concurrent.futures import ThreadPoolExecutor

import facts
from common import VERIF

WITNESS_PROPS = {"C01": ["W1", "W2", "W3", "W4"], "C06": ["W5", "W6", "W7"], "C07": ["W5", "W7"]}


def corpus_for(pid):
    items = []
    for d in sorted(glob.glob(os.path.join(VERIF, "seeded", "*"))):
        mp = os.path.join(d, "meta.json")
        pp = os.path.join(d, "patch.diff")
        if not os.path.isfile(pp):
            continue
        meta = json.load(open(mp)) if os.path.isfile(mp) else {}
        if pid in (meta.get("caught_by") or {}):
            if meta.get("base"):
                # a change made on top of a behaviour-preserving refactoring: apply that refactoring first
                bp = os.path.join(VERIF, "selftest", "equivalents", meta["base"] + ".diff")
                items.append(("seeded/" + os.path.basename(d), "patches", [bp, pp]))
            else:
                items.append(("seeded/" + os.path.basename(d), "patch", pp))
    sys.path.insert(0, os.path.join(VERIF, "selftest"))
    try:
        import mutants
        for name, rel, pairs, props in mutants.M:
            if pid in props:
                items.append(("selftest/" + name, "pairs", (rel, pairs)))
    except ImportError:
        pass
    return items


def equivalents_for(pid):
    """behaviour-preserving refactorings (selftest/equivalents/*.diff): the check must stay silent on every one of them"""
    out = []
    for pth in sorted(glob.glob(os.path.join(VERIF, "selftest", "equivalents", "*.diff"))):
        out.append(("equivalents/" + os.path.basename(pth)[:-5], "patch", pth))
    return out


def replay_one(args):
    pid, name, kind, payload, repo = args
    tmp = tempfile.mkdtemp(prefix="thorough.", dir="/tmp")
    try:
        subprocess.run(["rsync", "-a", "--exclude", "target", "--exclude", ".git", repo + "/", tmp + "/"], check=True)
        if kind in ("patch", "patches"):
            for one in (payload if kind == "patches" else [payload]):
                r = subprocess.run(["patch", "-p1", "-s", "-d", tmp, "-i", one], capture_output=True, text=True)
                if r.returncode != 0:
                    return (name, "skipped", "patch no longer applies to the current tree")
        else:
            rel, pairs = payload
            p = os.path.join(tmp, rel)
            s = open(p).read()
            for old, new in pairs:
                if old not in s:
                    return (name, "skipped", "pattern no longer present in the current tree")
                s = s.replace(old, new, 1)
            open(p, "w").write(s)
        r = subprocess.run([sys.executable, os.path.join(VERIF, "sa", "run.py"), pid, "--repo", tmp, "--tier", "quick"], capture_output=True, text=True,
                           env=dict(os.environ, VERIF_NO_EVIDENCE="1"))
        first = [l.strip() for l in r.stdout.splitlines() if l.startswith("  rule")]
        if r.returncode == 1:
            return (name, "caught", first[0][:220] if first else "violation")
        if r.returncode == 2:
            return (name, "skipped", "mutant does not build")
        return (name, "missed", r.stdout.strip().splitlines()[0][:160] if r.stdout.strip() else "no output")
    finally:
        shutil.rmtree(tmp, ignore_errors=True)


def run_witnesses(chk, pid):
    names = WITNESS_PROPS.get(pid)
    if not names:
        return
    src = os.path.join(VERIF, "witness")
    work = os.path.join(VERIF, ".cache", "witness-run")
    shutil.rmtree(work, ignore_errors=True)
    os.makedirs(os.path.join(work, "src"))
    shutil.copy(os.path.join(src, "src", "lib.rs"), os.path.join(work, "src", "lib.rs"))
    toml = open(os.path.join(src, "Cargo.toml")).read().replace("/repo/libs/core", os.path.join(facts.REPO, "libs/core"))
    open(os.path.join(work, "Cargo.toml"), "w").write(toml)
    shutil.copy(os.path.join(facts.REPO, "Cargo.lock"), os.path.join(work, "Cargo.lock"))
    env = dict(os.environ, CARGO_NET_OFFLINE="true", CARGO_TARGET_DIR=os.path.join(VERIF, ".cache", "witness-target"))
    r = subprocess.run(["cargo", "+nightly", "test", "--doc", "--offline"], cwd=work, capture_output=True, text=True, env=env)
    res = {}
    for l in r.stdout.splitlines():
        m = re.match(r"^test src/lib.rs - (W\d+) \(line \d+\)( - compile fail)? \.\.\. (\w+)", l)
        if m:
            res.setdefault(m.group(1), []).append(("compile_fail" if m.group(2) else "twin", m.group(3)))
    out = []
    for w in names:
        got = res.get(w, [])
        ok = sorted(got) == [("compile_fail", "ok"), ("twin", "ok")]
        out.append({"witness": w, "result": got})
        chk.ob("%s.witness" % pid, "compile_fail witness %s fails to compile with the expected error code and its twin compiles" % w, ok, key="witness:%s" % w,
               where="witness/src/lib.rs", detail=str(got) if not ok else None)
    chk.extra["witnesses"] = out


def clippy_crossref(chk, prog):
    """C12: every unwrap/expect/indexing/arithmetic site clippy's restriction lints report inside the analysed functions' files
    must lie in a function the A4 inventory analysed (the inventory is per path, so it is a superset by construction when the function is covered)."""
    env = dict(os.environ, CARGO_NET_OFFLINE="true", CARGO_TARGET_DIR=os.path.join(VERIF, ".cache", "clippy-target"))
    lints = ["clippy::unwrap_used", "clippy::expect_used", "clippy::indexing_slicing", "clippy::arithmetic_side_effects", "clippy::panic"]
    args = ["cargo", "+nightly", "clippy", "--offline", "-p", "flipdot-testing", "--lib", "--message-format=json", "--"] + sum((["-W", l] for l in lints), [])
    r = subprocess.run(args, cwd=facts.REPO, capture_output=True, text=True, env=env)
    sites = []
    for l in r.stdout.splitlines():
        try:
            j = json.loads(l)
        except ValueError:
            continue
        msg = j.get("message") or {}
        code = (msg.get("code") or {}).get("code") or ""
        if code in lints:
            for sp in msg.get("spans", []):
                if sp.get("is_primary") and "virtual_sign_bus.rs" in sp["file_name"]:
                    sites.append((code, sp["file_name"], sp["line_start"]))
    # extents of the analysed functions, from the spans of their MIR
    extents = []
    names = set(chk.analysed.get("functions", []))
    for f in prog.fns.values():
        if f["name"] not in names:
            continue
        fl = f["span"]["file"]
        lines = [f["span"]["line"]]
        for b in f["body"]["blocks"]:
            for st in b["stmts"]:
                sp = st.get("span")
                if sp and sp["file"] == fl and not sp.get("exp"):
                    lines.append(sp["line"])
            sp = b["term"].get("span")
            if sp and sp["file"] == fl and not sp.get("exp"):
                lines.append(sp["line"])
        extents.append((fl, min(lines), max(lines), f["name"]))
    ob_lines = set()
    for o in chk.obligations:
        w = o.get("where") or ""
        m = re.match(r"^(\S+):(\d+)", w)
        if m:
            ob_lines.add((m.group(1), int(m.group(2))))
    missing = []
    inside = 0
    for code, fn, ln in sites:
        ext = [e for e in extents if e[0].endswith(fn) and e[1] <= ln <= e[2]]
        if not ext:
            continue   # in a function that is not reachable from the entry points
        inside += 1
        if not any(f_.endswith(fn) or fn.endswith(f_) for (f_, l_) in ob_lines if l_ == ln):
            missing.append((code, fn, ln, ext[0][3]))
    chk.extra["clippy_sites_in_virtual_sign_bus"] = len(sites)
    chk.extra["clippy_sites_inside_analysed_functions"] = inside
    chk.ob("C12.clippy", "every clippy restriction-lint site inside an analysed function of the virtual sign (%d of %d reported) has an obligation in the A4 inventory at the same line" % (inside, len(sites)),
           not missing and inside > 0, key="clippy:coverage", detail=str(missing[:3]) if missing else ("no clippy site fell inside an analysed function: cross-reference vacuous" if not inside else None))


def run(chk, prog, pid):
    if os.environ.get("VERIF_NO_EVIDENCE"):
        return   # never recurse from a replay
    run_witnesses(chk, pid)
    if pid == "C12":
        try:
            clippy_crossref(chk, prog)
        except Exception as e:
            chk.selftest_failures.append("clippy cross-reference could not run: %r" % (e,))
    items = corpus_for(pid)
    jobs = [(pid, name, kind, payload, facts.REPO) for (name, kind, payload) in items]
    with ThreadPoolExecutor(max_workers=14) as ex:
        res = list(ex.map(replay_one, jobs))
    rep = []
    for name, status, detail in res:
        rep.append({"mutant": name, "status": status, "report": detail})
        if status == "missed":
            chk.selftest_failures.append("mutant %s is no longer reported by %s (%s)" % (name, pid, detail))
    # behaviour-preserving refactorings must not be reported
    ejobs = [(pid, name, kind, payload, facts.REPO) for (name, kind, payload) in equivalents_for(pid)]
    with ThreadPoolExecutor(max_workers=14) as ex:
        eres = list(ex.map(replay_one, ejobs))
    erep = []
    for name, status, detail in eres:
        st2 = {"caught": "FALSE-ALARM", "missed": "silent", "skipped": "skipped"}[status]
        erep.append({"refactoring": name, "status": st2, "report": detail if status == "caught" else None})
        if status == "caught":
            chk.selftest_failures.append("behaviour-preserving refactoring %s is reported by %s (%s)" % (name, pid, detail))
    chk.extra["equivalents_replayed"] = erep
    chk.extra["equivalents_silent"] = sum(1 for r in erep if r["status"] == "silent")
    chk.extra["mutants_replayed"] = rep
    chk.extra["mutants_caught"] = sum(1 for r in rep if r["status"] == "caught")
    chk.extra["mutants_skipped"] = [r["mutant"] for r in rep if r["status"] == "skipped"]
    n = chk.extra["mutants_caught"]
    print("%s thorough: %d mutant(s) replayed, %d caught, %d skipped; %d behaviour-preserving refactoring(s) replayed, %d silent" % (
        pid, len(rep), n, len(chk.extra["mutants_skipped"]), len(erep), chk.extra["equivalents_silent"]))
