"""A2 helpers — effect traces of a function: ordered calls that touch a designated resource, sleeps, conversions."""
from mireval import Evaluator, fmt_term
from models import Models
from facts import loc

FRAME = "flipdot_core::frame::Frame"
MSG = "flipdot_core::message::Message"


def fn_is(f, self_adt=None, item=None, trait=None, trait_arg_prefix=None):
    imp = f.get("impl") or {}
    if item and f.get("item") != item:
        return False
    if self_adt and imp.get("self_adt") != self_adt:
        return False
    if trait is not None and imp.get("trait") != trait:
        return False
    if trait is None and self_adt and "trait" in imp and item not in ("from",):
        return False
    if trait_arg_prefix and not (imp.get("trait_args") and imp["trait_args"][0].startswith(trait_arg_prefix)):
        return False
    return True


class Units:
    """The protocol-level building blocks that the I/O functions are analysed *in terms of* (each is analysed on its own elsewhere)."""

    def __init__(self, prog):
        self.prog = prog
        g = lambda **kw: [f for f in prog.fns.values() if fn_is(f, **kw)]
        self.frame_write = g(self_adt=FRAME, item="write")
        self.frame_read = g(self_adt=FRAME, item="read")
        self.frame_from_bytes = g(self_adt=FRAME, item="from_bytes")
        self.to_bytes_nl = g(self_adt=FRAME, item="to_bytes_with_newline")
        self.msg_to_frame = g(self_adt=FRAME, item="from", trait="core::convert::From", trait_arg_prefix=MSG)
        self.frame_to_msg = g(self_adt=MSG, item="from", trait="core::convert::From", trait_arg_prefix=FRAME)
        self.configure_port = [f for f in prog.fns.values() if f["name"] == "flipdot_serial::serial_port::configure_port"]

    def names(self, *groups):
        out = set()
        for g in groups:
            for f in g:
                out.add(f["path"])
        return out


def classify_call(units, e):
    """protocol-level role of a call event"""
    name = e[1]
    for role, grp in (("Frame::write", units.frame_write), ("Frame::read", units.frame_read), ("Frame::from(Message)", units.msg_to_frame),
                      ("Message::from(Frame)", units.frame_to_msg), ("Frame::from_bytes", units.frame_from_bytes), ("to_bytes_with_newline", units.to_bytes_nl),
                      ("configure_port", units.configure_port)):
        if any(f["name"] == name for f in grp):
            return role
    if name == "std::thread::functions::sleep":
        return "sleep"
    return name


def mentions(t, pred):
    if pred(t):
        return True
    if isinstance(t, tuple):
        return any(mentions(x, pred) for x in t if isinstance(x, tuple))
    return False


def duration_ms(t):
    if t[0] == "app" and t[1] == "duration_ms" and t[2][0][0] == "int":
        return t[2][0][1]
    if t[0] == "app" and t[1] == "duration_us" and t[2][0][0] == "int":
        return t[2][0][1] / 1000.0
    return None
