"""C01 / C02 / C03 — the frame wire codec: Data typestate (A5), encoder byte sequence (A3), regex language (A6),
decoder must-pass / order / payload-binding rules (A2), decoder totality (A4 lemmas D3)."""
import json
import os
import subprocess
from mireval import Evaluator, Unsupported, fmt_term, mk_int, term_type
from models import Models, apply_closure
from facts import loc
from p_msgmap import norm, norm_cons, known_val
from common import VERIF, at_log_levels
import a3

FRAME = "flipdot_core::frame::Frame"
DATA = "flipdot_core::frame::Data"
FERR = "flipdot_core::frame::FrameError"
COW = "alloc::borrow::Cow"
HEX_UPPER = b"0123456789ABCDEF"
GROUPS = {"data_len": (1, 2), "address": (3, 4), "message_type": (7, 2), "checksum": (None, 2)}


def one(lst, what):
    if len(lst) != 1:
        raise Unsupported("anchor %s: found %d" % (what, len(lst)))
    return lst[0]


class Codec:
    def __init__(self, prog):
        self.prog = prog
        self.models = Models(prog)
        inh = lambda n: one(prog.inherent(FRAME, n), "Frame::" + n)
        self.from_bytes = inh("from_bytes")
        self.to_bytes = inh("to_bytes")
        self.to_bytes_nl = inh("to_bytes_with_newline")
        self.payload = inh("payload")
        self.new = inh("new")
        self.data_fn = inh("data")
        self.try_new = one(prog.inherent(DATA, "try_new"), "Data::try_new")
        # the checksum routine: the workspace function that from_bytes applies to the payload (found through the call graph)
        self.checksum = None
        a = prog.adts[FRAME]
        self.ff = [f["name"] for f in a["variants"][0]["fields"]]
        for n in ("address", "message_type", "data"):
            if n not in self.ff:
                raise Unsupported("Frame has no field %s" % n)

    def fidx(self, n):
        return self.ff.index(n)

    def find_checksum(self):
        """the function called on the payload's result inside from_bytes and to_bytes"""
        if self.checksum is not None:
            return self.checksum
        cands = {}
        for fn in (self.from_bytes, self.to_bytes):
            # workspace functions reachable from fn through direct calls (helpers, stages, closures), to a small depth
            seen = {fn["path"]}
            work = [(fn, 0)]
            while work:
                g, depth = work.pop()
                bodies = [g["body"]] + [c["body"] for c in self.prog.closures_of(g["path"])]
                for body in bodies:
                    for b in body["blocks"]:
                        t = b["term"]
                        if b["cleanup"] or t["t"] != "call" or "fn" not in t["func"]:
                            continue
                        fj = t["func"]["fn"]
                        tgt = self.prog.fns.get((fj.get("resolved") or fj)["path"])
                        if tgt is None:
                            continue
                        if tgt.get("output", {}).get("s") == "u8" and len(tgt.get("inputs", [])) == 1 and tgt["inputs"][0].get("s", "").endswith("[u8]") and "impl" not in tgt:
                            cands.setdefault(tgt["path"], set()).add(fn["path"])
                        if tgt["path"] not in seen and depth < 4:
                            seen.add(tgt["path"])
                            work.append((tgt, depth + 1))
        both = [p for p, s in cands.items() if len(s) == 2]
        if len(both) != 1:
            raise Unsupported("cannot identify the checksum routine shared by from_bytes and to_bytes (%s)" % list(cands))
        self.checksum = self.prog.fns[both[0]]
        return self.checksum


_REGEX_CACHE = {}


def regex_info(cx):
    """literal passed to Regex::new in the lazily initialised regex that from_bytes matches against -> rxlang report"""
    key = id(cx.prog)
    if key in _REGEX_CACHE:
        return _REGEX_CACHE[key]
    ck = cx.find_checksum()
    ni = {cx.payload["path"], ck["path"]}
    ev = Evaluator(cx.prog, cx.models, no_inline=lambda f: f["path"] in ni)
    paths = ev.run(cx.from_bytes)
    lit = None
    cap = None
    for p in paths:
        for (t, v, w) in p.decisions:
            if t[0] == "discr" and t[1][0] == "app" and t[1][1] == "captures":
                cap = t[1]
    if cap is None:
        raise Unsupported("Frame::from_bytes does not branch on Regex::captures(..)")
    re_t = cap[2][0]
    if not (re_t[0] == "app" and re_t[1] == "lazy" and re_t[2][0][0] in ("fn", "closure")):
        raise Unsupported("the regex is not a lazily initialised static (%s)" % fmt_term(re_t)[:60])
    init_path = re_t[2][0][1][0] if re_t[2][0][0] == "fn" else re_t[2][0][1]       # lazy_static's initialiser fn / LazyLock's closure
    init = cx.prog.fns.get(init_path)
    if init is None:
        raise Unsupported("regex initialiser %s not found" % init_path)
    ev2 = Evaluator(cx.prog, cx.models)
    ips = [p for p in ev2.run(init) if p.kind == "return"]
    if len(ips) != 1:
        raise Unsupported("regex initialiser has %d returning paths" % len(ips))
    v = ips[0].value
    if not (v[0] == "app" and v[1] == "regex" and v[2][0][0] == "ref" and v[2][0][1][0] == "val" and v[2][0][1][1][0] == "bytes"):
        raise Unsupported("regex initialiser does not return Regex::new(<literal>).unwrap(): %s" % fmt_term(v)[:80])
    lit = v[2][0][1][1][1]
    exe = os.path.join(VERIF, "tools/rxlang/target/release/rxlang")
    r = subprocess.run([exe], input=lit, capture_output=True)
    if r.returncode != 0:
        raise Unsupported("rxlang failed: %s" % r.stderr.decode()[-300:])
    info = json.loads(r.stdout.decode())
    info["literal"] = lit.decode("utf-8", "replace")
    info["init_where"] = loc(init["span"])
    info["input_term"] = cap[2][1]
    info["paths"] = paths
    info["cap"] = cap
    _REGEX_CACHE[key] = info
    return info


def regex_rules(chk, cx, rule):
    """O1: the decoder's regex accepts exactly the documented shape (language equality on minimised DFAs)."""
    info = regex_info(cx)
    w = info["init_where"]
    chk.ob(rule, "the frame regex literal compiles (regex-syntax 0.8.11 / regex-automata 0.4.18, bytes::Regex defaults)", info.get("compiles"), key="regex:compiles", where=w, detail=info.get("error"))
    if not info.get("compiles"):
        return info
    wit = info.get("witness") or {}
    chk.ob(rule, "regex language == ':' + 8 hex + (2 hex)* + 2 hex + optional CRLF, whole input (product exploration over 256 bytes + end of input, %d product states)" % info["product_states"],
           info["language_equal"], key="regex:language", where=w,
           detail=None if info["language_equal"] else "distinguishing input %s : regex %s, specification %s" % (wit.get("string"), "accepts" if wit.get("regex_accepts") else "rejects", "accepts" if wit.get("spec_accepts") else "rejects"))
    okin = norm(info["input_term"]) == norm(("sym", "*bytes", "?"))
    chk.ob(rule, "the regex is applied to the whole input slice", okin, key="regex:input", where=loc(cx.from_bytes["span"]), detail=fmt_term(info["input_term"])[:60])
    gs = {g["name"]: g for g in info["groups"]}
    for name, (off, ln) in GROUPS.items():
        g = gs.get(name)
        ok = g is not None and g["always"] and g["hex_only"] and g["min_len"] == ln and g["max_len"] == ln and (off is None or (g["off_min"] == off and g["off_max"] == off))
        chk.ob(rule + ".groups", "group `%s`: on every match path, %d hex digits%s" % (name, ln, " at offset %d" % off if off is not None else ", the last two hex digits"), ok, key="regex:group:%s" % name, where=w, detail=str(g))
    g = gs.get("data")
    ok = g is not None and g["always"] and g["hex_only"] and g["unit"] == 2 and g["off_min"] == 9 and g["off_max"] == 9
    chk.ob(rule + ".groups", "group `data`: on every match path, a whole number of hex pairs at offset 9", ok, key="regex:group:data", where=w, detail=str(g))
    chk.floor(rule + ".groups", "named groups", len(gs), 5)
    return info


# ---- terms of the decoder ------------------------------------------------------------------
def group_bytes(cap, name):
    return ("app", "match_bytes", (("unwrap", ("app", "group", (("unwrap", cap), ("bytes", name.encode())))),))


def parsed(cap, name, ty):
    """parse_hex::<ty>(group bytes) as the evaluator renders it"""
    return ("unwrap", ("app", "from_str_radix:" + ty, (("proj", ("unwrap", ("app", "from_utf8", (group_bytes(cap, name),))), ("deref",)), mk_int(16, "u32"))))


def is_parsed(t, cap, name, ty):
    """t == parse of group `name` as type ty in base 16 (via from_utf8 + from_str_radix)"""
    t = norm(t)
    want = norm(parsed(cap, name, ty))
    if t == want:
        return True
    # from_utf8 result may be passed without the explicit deref
    alt = norm(("unwrap", ("app", "from_str_radix:" + ty, (("unwrap", ("app", "from_utf8", (group_bytes(cap, name),))), mk_int(16, "u32")))))
    return t == alt


def decoder_paths(cx):
    info = regex_info(cx)
    return info, info["paths"], info["cap"]


def data_vec_term(cap):
    """collect(map(chunks(group data, 2), parse_hex::<u8>))"""
    return None


def decoder_rules(chk, cx, rules):
    """shared by C01.O5 / C02.O2 / C03.O3: paths of Frame::from_bytes"""
    info, paths, cap = decoder_paths(cx)
    where = loc(cx.from_bytes["span"])
    ck = cx.find_checksum()
    kinds = {}
    for p in paths:
        if p.kind == "loopback":
            continue        # a loop's back edge after its invariant stabilised: not an outcome
        if p.kind != "return":
            chk.ob(rules["total"], "Frame::from_bytes has no panicking path besides the discharged unwraps (%s)" % p.info, False, key="dec:panic:%s" % p.info, where=where)
            continue
        v = p.value
        dec_all = [(norm(t), val) for (t, val, w) in p.decisions]
        # the loop that decodes the data pairs asks for the next pair; these are not tests on the input's validity
        # (that it runs to exhaustion is checked where the frame is bound: `dec:loop-exhausted`)
        dec = [d for d in dec_all if not is_data_iteration(d[0], cap)]
        capd = ("discr", norm(cap))
        if not (v[0] == "adt" and v[3] in ("Ok", "Err")):
            chk.ob(rules["order"], "from_bytes returns Ok/Err", False, key="dec:shape", where=where)
            continue
        if v[3] == "Err":
            e = v[4][0]
            kind = e[3] if e[0] == "adt" else "?"
        else:
            kind = "Ok"
        if kind == "DataTooLong" and too_long_infeasible(dec, cap):
            continue
        if False:
            # infeasible when the path has already passed `pair count == declared length` (a u8): both `len/2` and
            # `ceil(len/2)` are the pair count because the data group is a whole number of pairs (regex rule, unit 2),
            # a fact the evaluator's arithmetic does not have
            eqs = [(t, val) for t, val in dec if t[0] == "app" and t[1] in ("Ne", "Eq") and any(is_count(x, cap) for x in t[2]) and any(is_declared(x, cap) for x in t[2])]
            gts = [(t, val) for t, val in dec if t[0] == "app" and t[1] == "Gt" and is_count(t[2][0], cap) and t[2][1] == mk_int(255, "usize") and val == 1]
            if eqs and gts and all(((val == 1) == (t[1] == "Eq")) for t, val in eqs):
                continue
        kinds.setdefault(kind, []).append(p)
        # generic: first decision is the regex match
        ok_first = bool(dec) and dec[0][0] == capd
        chk.ob(rules["order"], "the regex match is the first test on every path (%s)" % kind, ok_first, key="dec:first-test:%s" % kind, where=where)
        if kind == "InvalidFrame":
            ok = dec == [(capd, 0)]
            okp = norm(v[4][0][4][0]) == norm(("app", "to_vec", (("sym", "*bytes", "?"),)))
            chk.ob(rules["order"], "InvalidFrame is returned exactly when the regex does not match, before anything else is examined", ok, key="dec:invalid-cond", where=where, detail=str([fmt_term(t)[:60] for t, _ in dec]))
            chk.ob(rules["payload"], "InvalidFrame carries the input bytes", okp, key="dec:invalid-payload", where=where)
            continue
        # the length test.  On a path where the decoding loop ran exactly k times before the iterator was exhausted, the
        # literal k is the pair count (the vector built so far has k elements).
        its_all = [(t, val) for t, val in dec_all if is_data_iteration(t, cap) and t[1] == "has_next"]
        n_iter = sum(1 for _, val in its_all if val == 1) if (its_all and its_all[-1][1] == 0) else None
        if n_iter is not None:
            lit = mk_int(n_iter, "usize")
            cnt_marker = ("app", "Div", (("len", norm(group_bytes(cap, "data"))), mk_int(2, "usize")))
            dec = [((t[0], t[1], tuple(cnt_marker if x == lit else x for x in t[2])), val) if (t[0] == "app" and t[1] in ("Ne", "Eq") and len(t[2]) == 2 and any(is_declared(x, cap) for x in t[2])) else (t, val) for t, val in dec]
        cnt_tests = [(t, val) for t, val in dec if t[0] == "app" and t[1] in ("Ne", "Eq") and any(is_count(x, cap) for x in t[2])]
        if kind == "FrameDataMismatch":
            ok = len(dec) == 2 and len(cnt_tests) == 1 and count_test_ok(cnt_tests[0], cap, equal=False)
            chk.ob(rules["must"], "FrameDataMismatch is returned exactly when the number of data pairs differs from the declared length (second test)", ok, key="dec:mismatch-cond", where=where,
                   detail=str([fmt_term(t)[:90] for t, _ in dec[1:]]))
            e = v[4][0]
            names = field_names(cx.prog, FERR, "FrameDataMismatch")
            act_t = e[4][names.index("actual")]
            okp = is_declared(e[4][names.index("expected")], cap) and (is_count(act_t, cap) or (n_iter is not None and norm(act_t) == mk_int(n_iter, "usize"))) \
                and norm(e[4][names.index("data")]) == norm(("app", "to_vec", (("sym", "*bytes", "?"),)))
            chk.ob(rules["payload"], "FrameDataMismatch reports expected = declared length, actual = number of data pairs, data = input", okp, key="dec:mismatch-payload", where=where, detail=fmt_term(e)[:160])
            continue
        if kind in ("BadChecksum", "Ok"):
            ok_len = len(cnt_tests) == 1 and count_test_ok(cnt_tests[0], cap, equal=True) and dec.index(cnt_tests[0]) == 1
            chk.ob(rules["must"], "%s: the path passes the edge `data pairs == declared length` right after the match" % kind, ok_len, key="dec:%s:len-edge" % kind, where=where)
            calls = [e for e in p.trace if e[0] == "call"]
            pc = [e for e in calls if e[1] == cx.payload["name"]]
            cc = [e for e in calls if e[1] == ck["name"]]
            okc = len(pc) == 1 and len(cc) == 1 and cc[0][6][0] is not None and norm(cc[0][6][0]) == norm(pc[0][3])
            chk.ob(rules["must"], "%s: the checksum is computed over the payload of the frame under construction" % kind, okc, key="dec:%s:checksum-of-payload" % kind, where=where)
            if not okc:
                continue
            fr = pc[0][6][0]
            okf, whyf = frame_binding(cx, fr, cap)
            chk.ob(rules["bind"], "%s: the frame is built from the parsed address / type / data groups (base 16, data pairs in order)" % kind, okf, key="dec:%s:binding" % kind, where=where, detail=whyf)
            its = [(t, val) for t, val in dec_all if is_data_iteration(t, cap) and t[1] == "has_next"]
            if its:
                # the data vector is filled by a loop over the pairs: it must run until the iterator is exhausted (no early exit)
                chk.ob(rules["bind"], "%s: the loop over the data pairs runs to exhaustion" % kind, its[-1][1] == 0 and all(v == 1 for _, v in its[:-1]), key="dec:%s:loop-exhausted" % kind, where=where)
            cks = [(t, val) for t, val in dec if t[0] == "app" and t[1] in ("Ne", "Eq") and norm(cc[0][3]) in t[2]]
            okk = len(cks) == 1 and is_parsed([x for x in cks[0][0][2] if x != norm(cc[0][3])][0], cap, "checksum", "u8")
            equal = okk and ((cks[0][1] == 1) == (cks[0][0][1] == "Eq"))
            after_len = okk and dec.index(cks[0]) > dec.index(cnt_tests[0]) if cnt_tests else False
            if kind == "Ok":
                chk.ob(rules["must"], "Ok: the path passes the edge `computed checksum == provided checksum`, after the length edge", okk and equal and after_len, key="dec:ok:checksum-edge", where=where)
                chk.ob(rules["bind"], "Ok returns exactly the frame whose payload was checksummed", norm(v[4][0]) == norm(fr), key="dec:ok:value", where=where, detail=fmt_term(v[4][0])[:100])
                extra = [t for t, val in dec if t != capd and (t, val) not in cnt_tests and (t, val) not in cks]
                extra = [t for t in extra if not (t[0] == "app" and t[1] == "Gt" and t[2][1] == mk_int(255, "usize"))]
                extra = [t for t in extra if not is_data_iteration(t, cap)]
                chk.ob(rules["must"], "Ok: no other test decides acceptance (accept iff shape, length and checksum are right)", not extra, key="dec:ok:extra-tests", where=where, detail=str([fmt_term(t)[:80] for t in extra[:2]]))
            else:
                chk.ob(rules["must"], "BadChecksum is returned exactly when the computed and provided checksums differ, after the length test", okk and not equal and after_len, key="dec:badsum-cond", where=where)
                e = v[4][0]
                names = field_names(cx.prog, FERR, "BadChecksum")
                okp = is_parsed(e[4][names.index("expected")], cap, "checksum", "u8") and norm(e[4][names.index("actual")]) == norm(cc[0][3]) and norm(e[4][names.index("data")]) == norm(("app", "to_vec", (("sym", "*bytes", "?"),)))
                chk.ob(rules["payload"], "BadChecksum reports expected = provided, actual = computed, data = input", okp, key="dec:badsum-payload", where=where, detail=fmt_term(e)[:160])
            continue
        chk.ob(rules["order"], "from_bytes rejects only as InvalidFrame, FrameDataMismatch or BadChecksum (found %s)" % kind, False, key="dec:other-kind:%s" % kind, where=where,
               detail=" & ".join("%s=%s" % (fmt_term(t)[:70], val) for t, val in dec))
    for k in ("InvalidFrame", "FrameDataMismatch", "BadChecksum", "Ok"):
        chk.ob(rules["order"], "from_bytes has a `%s` outcome" % k, k in kinds, key="dec:missing:%s" % k, where=where)
    return info, paths, cap


def too_long_infeasible(dec, cap):
    """a DataTooLong outcome after the path passed `pair count == declared length` (a u8): infeasible.  Both `len/2` and
    `ceil(len/2)` are the pair count because the data group is a whole number of pairs (regex rule, unit 2), a fact the
    evaluator's arithmetic does not have."""
    eqs = [(t, val) for t, val in dec if t[0] == "app" and t[1] in ("Ne", "Eq") and any(is_count(x, cap) for x in t[2]) and any(is_declared(x, cap) for x in t[2])]
    gts = [(t, val) for t, val in dec if t[0] == "app" and t[1] == "Gt" and is_count(t[2][0], cap) and t[2][1] == mk_int(255, "usize") and val == 1]
    return bool(eqs) and bool(gts) and all(((val == 1) == (t[1] == "Eq")) for t, val in eqs)


def field_names(prog, adt, variant):
    for v in prog.adts[adt]["variants"]:
        if v["name"] == variant:
            return [f["name"] for f in v["fields"]]
    raise Unsupported("no %s::%s" % (adt, variant))


def count_term(cap):
    return None


def is_count(t, cap):
    """len(collect(map(chunks(group data, 2), parse_hex)))"""
    t = norm(t)
    if t[0] == "app" and t[1] in ("Div", "div_ceil") and t[2][1] == mk_int(2, "usize") and t[2][0] == ("len", norm(group_bytes(cap, "data"))):
        return True     # digits / 2 (rounded either way): the data group is a whole number of hex pairs (regex rule `group data`, unit 2)
    if t[0] != "len":
        return False
    c = t[1]
    if c[0] == "app" and c[1] == "cow_slice":
        c = c[2][0]
        if c[0] == "adt" and c[3] == "Owned":
            c = c[4][0]
    return is_data_vec(c, cap)


def is_data_iteration(t, cap):
    """has_next(chunks(group data, 2), k): the `for` loop over the data pairs asking for the next pair
    (or the std fact 1 <= len(chunk) <= 2 the evaluator attaches to the yielded chunk)"""
    if t[0] == "app" and t[1] in ("Le", "Ge") and t[2][0][0] == "len" and t[2][1][0] == "int":
        return data_piece_src(t[2][0][1], cap)
    if not (t[0] == "app" and t[1] == "has_next"):
        return False
    ch = t[2][0]
    return ch[0] == "iter" and ch[1] in ("chunks", "chunks_exact") and ch[3] == mk_int(2, "usize") and ch[2] == norm(group_bytes(cap, "data"))


def data_piece_src(t, cap):
    """t == bytes of the generic chunk of chunks(group data, 2) / chunks_exact(group data, 2)"""
    t = norm(t)
    if t[0] == "proj" and t[2] == ("deref",):
        t = t[1]
    if t[0] != "item":
        return False
    ch = t[1]
    return ch[0] == "iter" and ch[1] in ("chunks", "chunks_exact") and ch[3] == mk_int(2, "usize") and ch[2] == norm(group_bytes(cap, "data"))


def parsed_piece(t, cap):
    """t == parse_hex::<u8>(generic data chunk) as the evaluator renders the inlined call"""
    t = norm(t)
    if t[0] != "unwrap" or not (t[1][0] == "app" and t[1][1] == "from_str_radix:u8" and t[1][2][1] == mk_int(16, "u32")):
        return False
    s = t[1][2][0]
    if s[0] == "proj" and s[2] == ("deref",):
        s = s[1]
    return s[0] == "unwrap" and s[1][0] == "app" and s[1][1] == "from_utf8" and data_piece_src(s[1][2][0], cap)


def is_data_loop_vec(c, cap):
    """a vector built by a `for` loop pushing parse_hex::<u8>(chunk) for every chunk: k unrolled pushes and/or the loop summary"""
    if c[0] != "seq":
        return False
    for it in c[1]:
        if it[0] == "elem":
            if not parsed_piece(it[1], cap):
                return False
        elif it[0] == "mapped_all":
            if not (len(it[1]) == 1 and parsed_piece(it[1][0][1], cap)):
                return False
        else:
            return False
    return True


def is_data_vec(c, cap):
    c = norm(c)
    if is_data_loop_vec(c, cap):
        return True     # (that the loop runs to exhaustion is checked on the path: decoder_rules, `dec:loop-exhausted`)
    if not (c[0] == "app" and c[1].startswith("collect:") and "Vec<u8>" in c[1]):
        return False
    it = c[2][0]
    if not (it[0] == "iter" and it[1] == "map" and it[2][0] == "iter" and it[2][1] in ("chunks", "chunks_exact")):
        return False   # (chunks_exact(2) == chunks(2) here: the data group is a whole number of hex pairs, checked by the regex rules)
    ch = it[2]
    if ch[3] != mk_int(2, "usize") or ch[2] != norm(group_bytes(cap, "data")):
        return False
    f = it[3]
    return f[0] == "fn" and f[1][0].endswith("::parse_hex") and f[1][1] == ("u8",)


def is_declared(t, cap):
    t = norm(t)
    return t[0] == "app" and t[1] == "cast:usize" and is_parsed(t[2][0], cap, "data_len", "u8")


def count_test_ok(test, cap, equal):
    (t, val) = test
    a, b = t[2]
    if is_declared(a, cap):
        a, b = b, a
    if not (is_count(a, cap) and is_declared(b, cap)):
        return False
    is_eq = (val == 1) == (t[1] == "Eq")
    return is_eq == equal


def frame_binding(cx, fr, cap):
    fr = norm(fr)
    if not (fr[0] == "adt" and fr[1] == FRAME):
        return False, "not a Frame aggregate: %s" % fmt_term(fr)[:80]
    a, m, d = fr[4][cx.fidx("address")], fr[4][cx.fidx("message_type")], fr[4][cx.fidx("data")]
    if not (a[0] == "adt" and len(a[4]) == 1 and is_parsed(a[4][0], cap, "address", "u16")):
        return False, "address is %s, not the 4-digit address group parsed as u16 base 16" % fmt_term(a)[:100]
    if not (m[0] == "adt" and len(m[4]) == 1 and is_parsed(m[4][0], cap, "message_type", "u8")):
        return False, "message type is %s, not the message_type group parsed as u8 base 16" % fmt_term(m)[:100]
    if not (d[0] == "adt" and d[1] == DATA and d[4][0][0] == "adt" and d[4][0][3] == "Owned" and is_data_vec(d[4][0][4][0], cap)):
        return False, "data is %s, not the data group's pairs parsed in order" % fmt_term(d)[:120]
    return True, None


# =============================================================================================
@at_log_levels("flipdot_core")
def run_c02(chk, prog):
    chk.notes.append("Decides that Frame::from_bytes returns Ok iff the input is in L = { documented shape AND declared length == number of data pairs AND LRC matches }: (O1) the regex's language equals the "
                     "documented shape exactly (A6, DFA product); (O2) every path to Ok passes the equality edges of both checks, computed over the parsed fields (A2 must-pass); (O3) the LRC covers "
                     "length, address, type and data (C01.O2/O3 re-checked here). That every listed corruption of a word of L leaves L or decodes to the same frame is lemma L2 (code-independent).")
    cx = Codec(prog)
    regex_rules(chk, cx, "C02.O1")
    decoder_rules(chk, cx, {"total": "C02.O2", "order": "C02.O2", "must": "C02.O2", "payload": "C02.O2.payload", "bind": "C02.O2"})
    payload_rules(chk, cx, "C02.O3")
    checksum_rules(chk, cx, "C02.O3")
    # the other decoding entry point: Frame::read must hand the line it read to from_bytes as it is (C15's read rules),
    # otherwise a damaged line could be "repaired" before the checks above see it
    import p_io
    n = chk.include("C02.read", p_io.run_c15, prog, keep=lambda r: r[:6] in ("C15.O1", "C15.O2", "C15.O3", "C15.O4"))
    chk.floor("C02.read", "obligations on Frame::read (second decoding entry point)", n, 8)
    chk.assumptions.append("lemma L2 (DESIGN.md section 6): single substitution / deletion / duplication / adjacent transposition / truncation of an encoder output is outside L or decodes to the same frame")
    chk.note_analysed("functions", [cx.from_bytes["name"], cx.payload["name"], cx.find_checksum()["name"]])


@at_log_levels("flipdot_core")
def run_c03(chk, prog):
    chk.notes.append("(O1) strictness: regex language equality (A6); (O2) totality: every unwrap on the decoder's paths is discharged by a lemma from the regex's group layout (A4/D3), the Data length "
                     "error is unreachable, no other panic site; (O3) rejection classes, their precedence and payloads (A2 order rules); (O4) re-encoding is C01's.")
    cx = Codec(prog)
    info = regex_rules(chk, cx, "C03.O1")
    info, paths, cap = decoder_rules(chk, cx, {"total": "C03.O2", "order": "C03.O3", "must": "C03.O3", "payload": "C03.O3.payload", "bind": "C03.O3"})
    # ---- O2 totality -------------------------------------------------------------------------
    gs = {g["name"]: g for g in info.get("groups", [])}
    where = loc(cx.from_bytes["span"])
    sites = {}
    for p in paths:
        for e in p.trace:
            if e[0] == "unwrap":
                sites.setdefault(norm(e[1]), e[2])
            if e[0] == "assert_undecided":
                sites.setdefault(("assert", norm(e[2])), e[3])
            if e[0] == "call" and e[1] not in (cx.payload["name"], cx.find_checksum()["name"]):
                sites.setdefault(("call", e[1]), e[4])
    n_unwrap = 0
    for t, w in sorted(sites.items(), key=repr):
        if t[0] == "assert":
            chk.ob("C03.O2", "arithmetic / bounds assert in the decoder is decided (%s)" % fmt_term(t[1])[:80], False, key="dec:assert:%s" % fmt_term(t[1])[:60], where=w)
            continue
        if t[0] == "call":
            chk.ob("C03.O2", "the decoder calls no unreviewed external function (%s)" % t[1], False, key="dec:call:%s" % t[1], where=w)
            continue
        n_unwrap += 1
        ok, why = discharge_unwrap(t, cap, gs, info)
        chk.ob("C03.O2", "unwrap of %s cannot fail: %s" % (fmt_term(t)[:70], why), ok, key="dec:unwrap:%s" % unwrap_sig(t), where=w, detail=None if ok else why)
    chk.floor("C03.O2", "unwrap sites on the decoder's paths", n_unwrap, 1)
    # parse_hex applied to the data chunks (the function item handed to map): chunks(2) of a whole number of hex pairs
    ph = [f for f in prog.fns.values() if f["name"] == "flipdot_core::frame::parse_hex"]
    g = gs.get("data")
    chk.ob("C03.O2", "parse_hex::<u8> on each chunks(2) piece of the data group cannot fail: the group is a whole number of hex pairs, so every piece is exactly 2 hex digits",
           bool(ph) and g is not None and g["unit"] == 2 and g["hex_only"], key="dec:unwrap:data-chunks", where=loc(ph[0]["span"]) if ph else where)
    # Regex::new(..).unwrap(): literal compiles
    chk.ob("C03.O2", "Regex::new(<literal>).unwrap() cannot fail: the literal compiles", info.get("compiles"), key="dec:unwrap:regex-new", where=info["init_where"])
    # Data::try_new error unreachable: no DataTooLong outcome among the paths (pruned by len == declared <= 255)
    too_long = [p for p in paths if p.kind == "return" and p.value[0] == "adt" and p.value[3] == "Err" and p.value[4][0][0] == "adt" and p.value[4][0][3] == "DataTooLong"
                and not too_long_infeasible([(norm(t), val) for (t, val, w) in p.decisions], cap)]
    chk.ob("C03.O2", "the Data length error is unreachable in the decoder (count == declared length <= 255 on that path)", not too_long, key="dec:too-long-reachable", where=where)
    # panics inside payload / checksum on the decoder's path: analysed by their own rules
    payload_rules(chk, cx, "C03.O2.payload-fn", panics_only=True)
    # the checksum routine runs on every decoding path (a panic in it breaks totality), and the re-encoding clause is the
    # encoder's: C01's rules on payload / checksum / to_bytes are part of this property's verdict
    n = chk.include("C03.O4.encoder", run_c01, cx.prog, keep=lambda r: r[:6] in ("C01.O2", "C01.O3", "C01.O4"))
    chk.floor("C03.O4.encoder", "encoder / checksum obligations", n, 10)
    chk.assumptions.append("Vec::<u8>::with_capacity(n).capacity() == n for the byte vectors built here (the code's own assert_eq! relies on it; std guarantees >= n)")
    chk.note_analysed("functions", [cx.from_bytes["name"], "flipdot_core::frame::parse_hex", cx.payload["name"], cx.find_checksum()["name"]])


def unwrap_sig(t):
    s = fmt_term(t)
    import re
    m = re.findall(r"\[([0-9A-F ]+)\]", s)
    g = bytes(int(x, 16) for x in m[-1].split()).decode() if m else "?"
    return "%s:%s" % (t[0] if t[0] != "app" else t[1], g)


def discharge_unwrap(t, cap, gs, info):
    """D3 lemmas"""
    capn = norm(cap)
    if t == capn:
        return True, "the Some edge of the match was taken"
    if t[0] == "app" and t[1] == "group" and t[2][0] == ("unwrap", capn):
        name = t[2][1][1].decode() if t[2][1][0] == "bytes" else None
        g = gs.get(name)
        if g and g["always"]:
            return True, "group `%s` lies on every match path of the regex" % name
        return False, "group `%s` is not on every match path (or does not exist)" % name
    dg = gs.get("data")
    if t[0] == "app" and t[1] == "from_utf8" and data_piece_src(t[2][0], cap):
        if dg and dg["hex_only"]:
            return True, "a chunk of group `data` consists of ASCII hex digits, hence valid UTF-8"
        return False, "group `data` is not hex-only"
    if t[0] == "app" and t[1] == "from_str_radix:u8" and parsed_piece(("unwrap", t), cap):
        if dg and dg["hex_only"] and dg["unit"] == 2:
            return True, "group `data` is a whole number of hex pairs, so every chunk of 2 is exactly 2 hex digits, which parse as u8"
        return False, "group `data` is not a whole number of hex pairs"
    if t[0] == "app" and t[1] == "from_utf8":
        src = t[2][0]
        name = group_of(src, capn)
        g = gs.get(name)
        if g and g["hex_only"]:
            return True, "bytes of group `%s` are ASCII hex digits, hence valid UTF-8" % name
        return False, "source %s is not a hex-only group" % fmt_term(src)[:60]
    if t[0] == "app" and t[1].startswith("from_str_radix:"):
        ty = t[1].split(":")[1]
        src = t[2][0]
        while src[0] in ("proj", "unwrap") and src != capn:
            src = src[1]
            if src[0] == "app" and src[1] == "from_utf8":
                src = src[2][0]
                break
        name = group_of(src, capn)
        g = gs.get(name)
        maxd = {"u8": 2, "u16": 4, "u32": 8}.get(ty)
        if g and g["hex_only"] and maxd and g["min_len"] >= 1 and g["max_len"] is not None and g["max_len"] <= maxd and t[2][1] == mk_int(16, "u32"):
            return True, "%d..%d hex digits always parse as %s in base 16" % (g["min_len"], g["max_len"], ty)
        return False, "group `%s` (%s) is not 1..%s hex digits for %s" % (name, g, maxd, ty)
    return False, "no lemma for %s" % fmt_term(t)[:80]


def group_of(src, capn):
    src = norm(src)
    if src[0] == "app" and src[1] == "match_bytes" and src[2][0][0] == "unwrap":
        g = src[2][0][1]
        if g[0] == "app" and g[1] == "group" and g[2][0] == ("unwrap", capn) and g[2][1][0] == "bytes":
            return g[2][1][1].decode()
    return None


# ---- encoder --------------------------------------------------------------------------------
def payload_rules(chk, cx, rule, panics_only=False):
    fn = cx.payload
    where = loc(fn["span"])
    ev = Evaluator(cx.prog, cx.models)
    paths = ev.run(fn)
    rets = [p for p in paths if p.kind == "return"]
    pans = [p for p in paths if p.kind == "panic"]
    # panics only through the capacity assert (assumption)
    for p in pans:
        last = norm(p.decisions[-1][0]) if p.decisions else None
        cap_assert = last is not None and a_mentions(last, "capacity") and "assert_failed" in str(p.info)
        chk.ob(rule, "Frame::payload panics only if Vec::with_capacity over-allocated (its own assert_eq on capacity)", cap_assert, key="payload:panic:%s" % p.info, where=where)
    if panics_only:
        return None
    chk.ob(rule, "Frame::payload has exactly one returning path", len(rets) == 1, key="payload:paths", where=where)
    if len(rets) != 1:
        return None
    v = rets[0].value
    sel = None
    h = rets[0].heap.get("*self")
    if h and h[0] == "adt":
        sel = h[4][0][1] if h[4][0][0] == "proj" else None
    if v[0] != "seq" or sel is None:
        chk.unproven(rule, "payload:shape", "Frame::payload does not build its result with push/extend (%s)" % fmt_term(v)[:80], where)
        return None
    items = v[1]
    addr = ("proj", ("proj", sel, ("field", cx.fidx("address"), "flipdot_core::frame::Address")), ("field", 0, "u16"))
    mty = ("proj", ("proj", sel, ("field", cx.fidx("message_type"), "flipdot_core::frame::MsgType")), ("field", 0, "u8"))
    dslice = ("app", "cow_slice", (("proj", ("proj", sel, ("field", cx.fidx("data"))), ("field", 0)),))
    ok = len(items) == 5 and all(i[0] == "elem" for i in items[:4]) and items[4][0] == "splice"
    chk.ob(rule, "payload = [length, address high, address low, type] ++ data (5 parts)", ok, key="payload:parts", where=where, detail=fmt_term(v)[:160])
    if not ok:
        return None
    # find the address variable as it appears in the terms
    avar = find_var(items[1][1], lambda t: t[0] == "proj" and norm(t) == norm(addr)) or addr
    lenv = ("len", norm(dslice))
    b0 = a3.bits_of(unnorm_len(items[0][1]), 8)
    okl = norm(items[0][1]) == norm(("app", "cast:u8", (("len", dslice),)))
    chk.ob(rule, "byte 0 is the data length truncated to 8 bits (lossless: Data holds at most 255 bytes, C01.O1)", okl, key="payload:len", where=where, detail=fmt_term(items[0][1])[:80])
    hi = a3.bits_of(items[1][1], 8)
    lo = a3.bits_of(items[2][1], 8)
    okh = hi == a3.var_bits(avar, 8, 16, 8)
    okw = lo == a3.var_bits(avar, 0, 8, 8)
    chk.ob(rule, "byte 1 is bits 15..8 of the address (big-endian high byte)", okh, key="payload:addr-hi", where=where, detail=fmt_term(items[1][1])[:80])
    chk.ob(rule, "byte 2 is bits 7..0 of the address", okw, key="payload:addr-lo", where=where, detail=fmt_term(items[2][1])[:80])
    chk.ob(rule, "byte 3 is the message type", norm(items[3][1]) == norm(mty), key="payload:type", where=where, detail=fmt_term(items[3][1])[:80])
    chk.ob(rule, "the rest is the data bytes in order", norm(items[4][1]) == norm(dslice), key="payload:data", where=where, detail=fmt_term(items[4][1])[:80])
    chk.sample({"payload": fmt_term(v)[:200]})
    return v


def unnorm_len(t):
    return t


def a_mentions(t, name):
    if isinstance(t, tuple):
        if len(t) >= 2 and t[0] == "app" and t[1] == name:
            return True
        return any(a_mentions(x, name) for x in t if isinstance(x, tuple))
    return False


def find_var(t, pred):
    if isinstance(t, tuple) and t:
        if isinstance(t[0], str) and pred(t):
            return t
        for x in t:
            if isinstance(x, tuple):
                r = find_var(x, pred)
                if r is not None:
                    return r
    return None


def checksum_rules(chk, cx, rule):
    fn = cx.find_checksum()
    where = loc(fn["span"])
    ev = Evaluator(cx.prog, cx.models)
    paths = ev.run(fn)
    ok1 = len(paths) == 1 and paths[0].kind == "return"
    loop_form = None
    if not ok1 and all(p.kind in ("return", "loopback") for p in paths):
        # an explicit loop instead of Iterator::fold: the path on which the loop ran to exhaustion carries the summary
        # fold(iterator, init, step); the paths that leave after 0 and 1 iterations must be instances of it (checked below)
        rets = [p for p in paths if p.kind == "return"]
        summ = [p for p in rets if find_var(p.value, lambda x: x[0] == "app" and x[1] == "fold") is not None]
        if len(summ) == 1:
            loop_form = [p for p in rets if p is not summ[0]]
            paths = summ
            ok1 = True
    chk.ob(rule, "the checksum routine is a single non-panicking path", ok1, key="checksum:paths", where=where)
    if not ok1:
        return
    v = paths[0].value
    st = paths[0].state
    F = ("sym", "FOLD", "u8")

    def find_fold(t):
        return find_var(t, lambda x: x[0] == "app" and x[1] == "fold")
    fold = find_fold(v)
    if fold is None:
        chk.unproven(rule, "checksum:shape", "the checksum is not a fold over the bytes (%s)" % fmt_term(v)[:80], where)
        return
    it, init, clo = fold[2]
    base_it = norm(("iter", "slice", ("sym", "*bytes", "?")))
    okit = norm(it) in (base_it, ("iter", "copied", base_it))
    chk.ob(rule, "the fold runs over every byte of the argument slice, once, in order", okit, key="checksum:iter", where=where, detail=fmt_term(it)[:80])
    acc = ("sym", "acc", "u8")
    b = ("sym", "b", "u8")

    class _CI:
        pass
    ci = _CI()
    ci.ev, ci.st = ev, st
    by_value = norm(it)[:2] == ("iter", "copied")
    if clo[0] == "template":
        # the step of an explicit loop: the accumulator's new value in terms of its old one and the iteration's item
        its = set()
        from mireval import collect_items
        collect_items(clo[2], its)
        item_terms = [t for t in all_subterms(clo[2]) if t[0] == "item"]
        step = clo[2]
        for t in item_terms:
            step = rewrite_term(step, ("proj", t, ("deref",)), b)
            step = rewrite_term(step, t, b)
        step = rewrite_term(step, clo[1], acc)
    else:
        step = apply_closure(ci, clo, [acc, b] if by_value else [acc, ("ref", ("val", b, ()), False)])
        if step is None:
            step = apply_closure(ci, clo, [acc, ("ref", ("val", b, ()), False)] if by_value else [acc, b])
    aff = a3.affine(step, (acc, b)) if step is not None else None
    oks = aff is not None and aff[0] == 0 and aff[1].get(acc, 0) == 1
    chk.ob(rule, "each fold step is acc' = acc + k*b (mod 256)", oks, key="checksum:step", where=where, detail=fmt_term(step)[:80] if step is not None else "closure not evaluable")
    if not oks:
        return
    beta = aff[1].get(b, 0)
    # post-processing of the fold result
    post = rewrite_term(v, fold, F)
    pa = a3.affine(post, (F,))
    ia = a3.affine(init, ())
    okp = pa is not None and ia is not None
    chk.ob(rule, "the result is an affine function (mod 256) of the fold", okp, key="checksum:post", where=where, detail=fmt_term(post)[:80])
    if not okp:
        return
    kappa = pa[1].get(F, 0)
    total_coeff = (kappa * beta) % 256
    total_const = (kappa * ia[0] + pa[0]) % 256
    chk.ob(rule, "checksum(bytes) == -(sum of bytes) mod 256, so all encoded bytes including it sum to 0 (coefficient %d, constant %d)" % (total_coeff, total_const),
           total_coeff == 255 and total_const == 0, key="checksum:lrc", where=where)
    chk.sample({"checksum": fmt_term(v)[:120], "step": fmt_term(step)[:80]})
    if loop_form is not None:
        # the early exits of the loop: after no item the result is post(init), after one item post(step(init, item))
        for p in loop_form:
            n_it = sum(1 for (t, val, w) in p.decisions if t[0] == "app" and t[1] == "has_next" and val == 1)
            pv = a3.affine(rewrite_items(p.value, b), (b,))
            want_c = (kappa * ia[0] + pa[0]) % 256
            want_b = (kappa * beta) % 256 if n_it == 1 else 0
            okq = pv is not None and n_it in (0, 1) and pv[0] % 256 == want_c and pv[1].get(b, 0) % 256 == want_b
            chk.ob(rule, "the loop's exit after %d item(s) returns the same function of the bytes seen" % n_it, okq, key="checksum:loop-exit:%d" % n_it, where=where, detail=fmt_term(p.value)[:80])


def all_subterms(t):
    out = []
    if isinstance(t, tuple):
        if t and isinstance(t[0], str):
            out.append(t)
        for x in t:
            if isinstance(x, tuple):
                out.extend(all_subterms(x))
    return out


def rewrite_items(t, b):
    """replace (the dereference of) every generic item term by the byte symbol b"""
    for it in [x for x in all_subterms(t) if x[0] == "item"]:
        t = rewrite_term(t, ("proj", it, ("deref",)), b)
        t = rewrite_term(t, it, b)
    return t


def rewrite_term(t, old, new):
    if t == old:
        return new
    if isinstance(t, tuple):
        return tuple(rewrite_term(x, old, new) if isinstance(x, tuple) else x for x in t)
    return t


def to_bytes_rules(chk, cx, rule):
    ck = cx.find_checksum()
    ni = {cx.payload["path"], ck["path"]}
    fn = cx.to_bytes
    where = loc(fn["span"])
    ev = Evaluator(cx.prog, cx.models, no_inline=lambda f: f["path"] in ni)
    paths = ev.run(fn, setup=lambda st: st.aux.__setitem__("watch_vec", True))
    nret = 0
    n_value = 0
    for p in paths:
        if p.kind == "panic":
            last = norm(p.decisions[-1][0]) if p.decisions else None
            chk.ob(rule, "to_bytes panics only if Vec::with_capacity over-allocated (its own assert_eq on capacity)", last is not None and a_mentions(last, "capacity") and "assert_failed" in str(p.info),
                   key="to_bytes:panic:%s" % p.info, where=where)
            continue
        if p.kind != "return":
            continue
        nret += 1
        calls = [e for e in p.trace if e[0] == "call"]
        pc = [e for e in calls if e[1] == cx.payload["name"]]
        cc = [e for e in calls if e[1] == ck["name"]]
        ok = len(pc) == 1 and len(cc) == 1 and pc[0][2][0][0] == "ref" and pc[0][2][0][1][:2] == ("heap", "*self") and cc[0][6][0] is not None and norm(cc[0][6][0]) == norm(pc[0][3])
        chk.ob(rule, "to_bytes encodes payload(self) followed by checksum(payload(self))", ok, key="to_bytes:inputs", where=where)
        if not ok:
            continue
        P, C = pc[0][3], cc[0][3]
        vec = [e for e in p.trace if e[0] == "vecop"]
        # the payload vector gets the checksum appended; the output vector gets ':' then pairs
        targets = {}
        for e in vec:
            targets.setdefault(e[2][:3], []).append(e)
        out_t = None
        pay_t = None
        for tg, es in targets.items():
            first = es[0]
            if first[1] == "push" and first[3][0] == mk_int(0x3A, "u8"):
                out_t = tg
            elif first[1] == "push" and norm(first[3][0]) == norm(C):
                pay_t = tg
        okt = out_t is not None and pay_t is not None and len(targets) == 2 and len(targets[pay_t]) == 1
        if not okt:
            # not the push-loop shape: judge the returned value itself (iterator pipelines, loop summaries)
            it_all = norm(("iter", "slice", ("seq", (("splice", P), ("elem", C)))))
            no_iter = any(norm(t) == ("app", "has_next", (it_all, mk_int(0, "usize"))) and val == 0 for (t, val, w) in p.decisions)
            if no_iter and norm(p.value) == ("seq", (("elem", mk_int(0x3A, "u8")),)):
                # the exit of the digit loop before its first iteration (payload ++ [checksum] is never empty): ':' and nothing else,
                # which is what the loop's summary on the other paths gives for zero bytes
                chk.ob(rule, "to_bytes returns ':' alone on the loop's zero-iteration exit", True, where=where)
                n_value += 1
                continue
            okv, whyv = to_bytes_value(p.value, P, C)
            chk.ob(rule, "to_bytes returns ':' followed, for each byte b of payload ++ [checksum] in order, by HEX[b >> 4], HEX[b & 15] from the table \"0123456789ABCDEF\"", okv,
                   key="to_bytes:value", where=where, detail=whyv)
            n_value += 1 if okv else 0
            continue
        chk.ob(rule, "exactly two vectors are built: payload ++ [checksum] and the output starting with ':'", okt, key="to_bytes:vectors", where=where, detail=str({str(k): [e[1] for e in v] for k, v in targets.items()}))
        it_want = norm(("iter", "slice", ("seq", (("splice", P), ("elem", C)))))
        outs = targets[out_t][1:]
        # flatten what is appended after ':' into single elements (push x -> [x]; extend_from_slice [a, b] -> [a, b])
        elems = []
        okops = True
        for e in outs:
            if e[1] == "push":
                elems.append(e[3][0])
            elif e[1] == "extend_from_slice" and e[5][0] is not None and e[5][0][0] == "array":
                elems.extend(e[5][0][1])
            elif e[1] == "extend_from_slice" and e[5][0] is not None and e[5][0][0] == "bytes":
                elems.extend(mk_int(b, "u8") for b in e[5][0][1])
            else:
                okops = False
        if not okops:
            okv, whyv = to_bytes_value(p.value, P, C)
            chk.ob(rule, "to_bytes returns ':' followed, for each byte b of payload ++ [checksum] in order, by HEX[b >> 4], HEX[b & 15] from the table \"0123456789ABCDEF\"", okv,
                   key="to_bytes:value", where=where, detail=whyv)
            n_value += 1 if okv else 0
            continue
        okpairs = okops and len(elems) % 2 == 0
        chk.ob(rule, "after ':' the output only receives appended bytes, two per loop iteration", okpairs, key="to_bytes:pairs", where=where, detail=str([e[1] for e in outs]))
        for i in range(0, len(elems) - 1, 2):
            hi, lo = elems[i], elems[i + 1]
            okh, item_h, why_h = hex_digit(hi, "hi")
            okl, item_l, why_l = hex_digit(lo, "lo")
            same = okh and okl and item_h == item_l and item_h[0] == "proj" and item_h[1][0] == "item" and norm(item_h[1][1]) == it_want
            chk.ob(rule, "each byte b of payload ++ [checksum] is emitted as HEX[b >> 4] then HEX[b & 15] from the table \"0123456789ABCDEF\"", same, key="to_bytes:digits", where=where,
                   detail=why_h or why_l or "digits of %s / %s over %s" % (fmt_term(item_h)[:40] if item_h else "?", fmt_term(item_l)[:40] if item_l else "?", "the wrong sequence" if okh and okl else "?"))
        # the returned vector is the output vector
        fr = p.state.frames.get(out_t[1], {})
        chk.ob(rule, "to_bytes returns the output vector", out_t[0] == "loc" and norm(fr.get(out_t[2])) == norm(p.value), key="to_bytes:return", where=where)
    chk.floor(rule, "to_bytes returning paths (0 / >=1 loop iterations, or one pipeline)", nret, 1 if n_value else 2)
    # with newline
    fn2 = cx.to_bytes_nl
    ev2 = Evaluator(cx.prog, cx.models, no_inline=lambda f: f["path"] in (cx.to_bytes["path"], cx.payload["path"], ck["path"]))
    paths = ev2.run(fn2)
    for p in paths:
        if p.kind == "panic":
            last = norm(p.decisions[-1][0]) if p.decisions else None
            chk.ob(rule, "to_bytes_with_newline panics only on the capacity assert", last is not None and a_mentions(last, "capacity"), key="to_bytes_nl:panic", where=loc(fn2["span"]))
            continue
        calls = [e for e in p.trace if e[0] == "call" and e[1] == cx.to_bytes["name"]]
        v = p.value
        ok = len(calls) == 1 and v[0] == "seq" and len(v[1]) == 3 and v[1][0] == ("splice", calls[0][3]) and [x[1] for x in v[1][1:]] == [mk_int(0x0D, "u8"), mk_int(0x0A, "u8")] \
            and calls[0][2][0][0] == "ref" and calls[0][2][0][1][:2] == ("heap", "*self")
        if not ok and not calls and v[0] == "seq" and len(v[1]) >= 3 and [x for x in v[1][-2:]] == [("elem", mk_int(0x0D, "u8")), ("elem", mk_int(0x0A, "u8"))]:
            # both encoders share a helper instead of one calling the other: the value must be the to_bytes value plus CRLF
            pcs = [e for e in p.trace if e[0] == "call" and e[1] == cx.payload["name"]]
            ccs = [e for e in p.trace if e[0] == "call" and e[1] == ck["name"]]
            if len(pcs) == 1 and len(ccs) == 1 and ccs[0][6][0] is not None and norm(ccs[0][6][0]) == norm(pcs[0][3]):
                ok, _why = to_bytes_value(("seq", v[1][:-2]), pcs[0][3], ccs[0][3])
        chk.ob(rule, "to_bytes_with_newline = to_bytes(self) ++ \"\\r\\n\"", ok, key="to_bytes_nl:shape", where=loc(fn2["span"]), detail=fmt_term(v)[:100])


def to_bytes_value(v, P, C):
    """v == seq[':'] ++ (HEX[hi(b)], HEX[lo(b)]) for every item b of an iterator over payload ++ [checksum]"""
    v = norm(v)
    if v[0] != "seq" or not v[1] or v[1][0] != ("elem", mk_int(0x3A, "u8")):
        return False, "the result %s does not start with ':'" % fmt_term(v)[:80]
    rest = v[1][1:]
    if len(rest) != 1 or rest[0][0] != "mapped_all" or len(rest[0][1]) != 2:
        return False, "after ':' the result is not one pair of digits per byte (%s)" % fmt_term(v)[:120]
    (hk, hi), (lk, lo) = rest[0][1]
    src = rest[0][2]
    okh, item_h, why_h = hex_digit(hi, "hi")
    okl, item_l, why_l = hex_digit(lo, "lo")
    if not (okh and okl):
        return False, why_h or why_l
    if item_h != item_l:
        return False, "the two digits come from different bytes"
    wants = [norm(("iter", "slice", ("seq", (("splice", P), ("elem", C))))),
             norm(("iter", "chain", ("iter", "slice", P), ("iter", "once", C)))]
    srcn = norm(src) if src is not None else None
    it_of = item_h[1][1] if (item_h[0] == "proj" and item_h[1][0] == "item") else None
    if srcn not in wants or norm(it_of) != srcn:
        return False, "the bytes encoded are the items of %s, not of payload ++ [checksum]" % (fmt_term(src)[:80] if src else "?")
    return True, None


def hex_digit(t, which):
    """t == HEX_UPPER[nibble(item)] -> (ok, item, why)"""
    if not (t[0] == "proj" and t[2][0] == "index" and t[1][0] == "bytes"):
        return False, None, "pushed value %s is not a lookup in a constant table" % fmt_term(t)[:60]
    if t[1][1] != HEX_UPPER:
        return False, None, "the digit table is %r, not \"0123456789ABCDEF\"" % t[1][1]
    idx = t[2][1]
    item = find_var(idx, lambda x: x[0] == "proj" and x[2][0] == "deref" and x[1][0] == "item")
    if item is None:
        return False, None, "index %s does not depend on the current byte" % fmt_term(idx)[:60]
    bits = a3.bits_of(idx, 8, var_width=8)
    want = a3.var_bits(item, 4, 8, 8) if which == "hi" else a3.var_bits(item, 0, 4, 8)
    if bits != want:
        return False, item, "%s digit index %s is not the %s nibble of the byte" % (which, fmt_term(idx)[:60], "high" if which == "hi" else "low")
    return True, item, None


def encoder_totality(chk, cx, rule):
    """A4 on the encoder: payload, the checksum routine, to_bytes and to_bytes_with_newline have no reachable panic for any
    frame whose data has at most 255 bytes (the Data invariant, C01.O1), apart from the encoder's own assert_eq! on
    Vec::capacity (the stated assumption with_capacity(n).capacity() == n)."""
    from a4 import PanicInventory, Interval

    def data_len_bound(x):
        # len(cow_slice(<frame>.data.0)) <= 255: the Data typestate
        if x[0] == "app" and x[1] in ("cow_slice", "cow_owned") and x[2][0][0] == "proj" and x[2][0][2][0] == "field" and x[2][0][1][0] == "proj":
            fty = x[2][0][1][2][2] if len(x[2][0][1][2]) > 2 else ""
            if isinstance(fty, str) and fty.startswith("flipdot_core::frame::Data"):
                return 255
        return None
    old = Interval.LEN_BOUND
    Interval.LEN_BOUND = staticmethod(data_len_bound)
    try:
        inv = PanicInventory(cx.prog, cx.models, log_on=True)
        for fn in (cx.payload, cx.find_checksum(), cx.to_bytes, cx.to_bytes_nl):
            inv.run_entry(fn)
    finally:
        Interval.LEN_BOUND = old
    n = 0
    for key, o in sorted(inv.obs.items()):
        if "capacity" in o.desc or any("capacity" in f for f in o.failed):
            continue        # the encoder's own assert_eq! on Vec::capacity: covered by the stated assumption
        n += 1
        ok = o.discharged is not None and not o.failed
        chk.ob(rule, "%s in %s: %s%s" % (o.kind, o.fn.split("::")[-1], o.desc[:110], " — " + o.discharged if ok else ""), ok, key="enc:panic-site:%s" % o.key, where=o.where,
               detail=None if ok else o.failed[0])
    chk.floor(rule, "panic-capable sites in the encoder", n, 4)


def data_typestate(chk, cx, rule):
    prog = cx.prog
    a = prog.adts[DATA]
    f0 = a["variants"][0]["fields"][0]
    chk.ob(rule, "Data's field is private to its module", f0["vis"].startswith("restricted:flipdot_core::frame"), key="data:field-vis", detail=f0["vis"])
    ctor_vis = a["variants"][0].get("ctor_vis")
    chk.ob(rule, "Data's tuple constructor is private to its module", ctor_vis is None or str(ctor_vis).startswith("restricted:flipdot_core::frame"), key="data:ctor-vis", detail=str(ctor_vis))
    fa = prog.adts[FRAME]
    for fl in fa["variants"][0]["fields"]:
        chk.ob(rule, "Frame.%s is private to its module" % fl["name"], fl["vis"].startswith("restricted:flipdot_core::frame"), key="frame:field-vis:%s" % fl["name"], detail=fl["vis"])
    # construction sites / writes / &mut borrows, all four crates
    n_ctor = 0
    for f in prog.fns.values():
        imp = f.get("impl") or {}
        for b in [f["body"]] + [p["body"] for p in f.get("promoted", [])]:
            for blk in b["blocks"]:
                if blk["cleanup"]:
                    continue
                for s in blk["stmts"]:
                    if s["st"] != "assign":
                        continue
                    r = s["rvalue"]
                    if r["rv"] == "aggregate" and r.get("agg") == "adt" and r.get("adt") == DATA:
                        n_ctor += 1
                        ok = imp.get("self_adt") == DATA and ((f.get("item") == "try_new" and "trait" not in imp) or (imp.get("automatically_derived") and f.get("item") == "clone"))
                        if not ok:
                            # an into_owned / to_owned style conversion: the bytes are the bytes of a Data that already exists
                            import surface
                            ok = surface.rebuilds_from_own_fields(prog, f, DATA)[0]
                        chk.ob(rule, "Data is constructed only in Data::try_new (or the derived Clone, or rebuilt from the bytes of an existing Data): %s" % f["name"], ok, key="data:ctor:%s" % f["name"], where=loc(s.get("span")))
                    hit = [e for e in s["place"]["proj"] if e["k"] == "field" and (e.get("of") == DATA or (e.get("of") == FRAME and e.get("name") == "data"))]
                    if hit:
                        chk.ob(rule, "no assignment through Data.0 / Frame.data (%s)" % f["name"], False, key="data:assign:%s" % f["name"], where=loc(s.get("span")))
                    if r["rv"] in ("ref", "rawptr") and r.get("mut", r["rv"] == "rawptr"):
                        hit = [e for e in r["place"]["proj"] if e["k"] == "field" and (e.get("of") == DATA or (e.get("of") == FRAME and e.get("name") == "data"))]
                        if hit:
                            chk.ob(rule, "no &mut borrow of Data.0 / Frame.data (%s)" % f["name"], False, key="data:mut-borrow:%s" % f["name"], where=loc(s.get("span")))
    chk.floor(rule, "Data construction sites", n_ctor, 1)
    # try_new: the aggregate is dominated by the `len <= 255` edge for the same value
    ev = Evaluator(prog, cx.models)
    paths = ev.run(cx.try_new)
    where = loc(cx.try_new["span"])
    n_ok = 0
    for p in paths:
        if p.kind != "return":
            chk.ob(rule, "Data::try_new has no panicking path", False, key="data:try_new:panic", where=where)
            continue
        v = p.value
        if v[0] == "adt" and v[3] == "Ok":
            n_ok += 1
            d = v[4][0]
            cow = d[4][0] if d[0] == "adt" else None
            sl = ("len", norm(("app", "cow_slice", (cow,)))) if cow is not None else None
            lim = p.state.bnd_get(("len", ("app", "cow_slice", (cow,)))) if cow is not None else (None, None)
            ok = cow is not None and lim[1] is not None and lim[1] <= 255
            chk.ob(rule, "Data::try_new returns Ok(Data(d)) only on the edge len(d) <= 255, for the same d (upper bound on the path: %s)" % (lim[1],), ok, key="data:try_new:guard", where=where)
        elif v[0] == "adt" and v[3] == "Err":
            e = v[4][0]
            chk.ob(rule, "Data::try_new rejects with DataTooLong", e[0] == "adt" and e[3] == "DataTooLong", key="data:try_new:err", where=where, detail=fmt_term(e)[:80])
    chk.floor(rule, "Ok paths of Data::try_new", n_ok, 1)
    out = cx.data_fn["output"]
    chk.ob(rule, "Frame::data returns a shared reference", out.get("k") == "ref" and not out.get("mut"), key="frame:data-ret", where=loc(cx.data_fn["span"]), detail=out.get("s"))
    chk.ob(rule, "no unsafe code in the workspace", not prog.unsafe_sites, key="unsafe", detail=str(prog.unsafe_sites[:2]))


@at_log_levels("flipdot_core")
def run_c01(chk, prog):
    chk.notes.append("Decides three structural clauses; the round trip follows by lemma L1: (O1) Data <= 255 typestate (A5 + guard dominance); (O2-O4) the encoder emits ':' then, for each byte of "
                     "[len, addr_hi, addr_lo, type, data.., -sum], its high and low nibble through the upper-case table, optionally followed by CRLF (A3 bit provenance / affine mod 256); "
                     "(O5) the decoder binds the same fields from the regex groups at offsets 1,3,7,9,.. parsed base 16 (A2 + A6).")
    # the two encodings also exist in stream form (Frame::write = to_bytes_with_newline to a sink, Frame::read = one line through
    # from_bytes): C15's rule set is a leg of the codec property
    import p_io
    n = chk.include("C01.stream", p_io.run_c15, prog)
    chk.floor("C01.stream", "obligations on Frame::write / Frame::read (C15)", n, 15)
    cx = Codec(prog)
    data_typestate(chk, cx, "C01.O1")
    payload_rules(chk, cx, "C01.O2")
    checksum_rules(chk, cx, "C01.O3")
    to_bytes_rules(chk, cx, "C01.O4")
    encoder_totality(chk, cx, "C01.O4.total")
    regex_rules(chk, cx, "C01.O5.regex")
    decoder_rules(chk, cx, {"total": "C01.O5", "order": "C01.O5", "must": "C01.O5", "payload": "C01.O5.payload", "bind": "C01.O5"})
    chk.assumptions += ["lemma L1 (DESIGN.md section 6): with O1-O5, decode(encode(f)) = f with or without CRLF, for owned or borrowed data (Cow equality is by content)",
                        "Vec::<u8>::with_capacity(n).capacity() == n (the code's own assert_eq!; std guarantees >= n)"]
    chk.note_analysed("functions", [cx.to_bytes["name"], cx.to_bytes_nl["name"], cx.payload["name"], cx.find_checksum()["name"], cx.from_bytes["name"], cx.try_new["name"]])
