"""S-rules — the entry-point set of a role is closed.

Every other rule set is anchored in the functions that implement a role today (the decoder, the
controller operations, the sign-side state machine, the port set-up …).  A change that leaves all of
those untouched and *adds* a second way in — a new public method, constructor, trait impl — is not
seen by them.  The S-rules close that gap structurally:

  * a role is a set of *sinks* (writes through / constructions of a protected type's fields, calls of a
    designated function or trait method) or a *signature* (input and output types),
  * the externally reachable functions (rustc's effective visibility, read from the facts) from which a
    sink is reachable in the resolved call graph — or which have the signature — are the role's entry points,
  * each of them must be one of the entry points the property's rule set analyses (a table per role, found by
    semantic anchor, with a floor so that a vanished anchor fails closed).

A function outside the table is reported with the call path to the sink.  This is a who-may-reach rule: it
decides that no unanalysed way in exists, not that a new way in is wrong.
"""
import re
from facts import loc

FRAME = "flipdot_core::frame::Frame"
DATA = "flipdot_core::frame::Data"
FERR = "flipdot_core::frame::FrameError"
MSG = "flipdot_core::message::Message"
PAGE = "flipdot_core::page::Page"
STYPE = "flipdot_core::sign_type::SignType"
VSIGN = "flipdot_testing::virtual_sign_bus::VirtualSign"
VBUS = "flipdot_testing::virtual_sign_bus::VirtualSignBus"
ODK = "flipdot_testing::odk::Odk"
SSB = "flipdot_serial::serial_sign_bus::SerialSignBus"
SIGN = "flipdot::sign::Sign"
BUS_TRAIT = "flipdot_core::sign_bus::SignBus"
BUS_CALL = BUS_TRAIT + "::process_message"


def _walk(j, fn):
    if isinstance(j, dict):
        fn(j)
        for v in j.values():
            _walk(v, fn)
    elif isinstance(j, list):
        for v in j:
            _walk(v, fn)


class Graph:
    """resolved call graph of the four crates: calls, function values, closures; per function the raw sites"""

    _memo = {}

    @classmethod
    def of(cls, prog):
        g = cls._memo.get(id(prog))
        if g is None:
            g = cls._memo[id(prog)] = cls(prog)
        return g

    def __init__(self, prog):
        self.prog = prog
        self.callees = {}     # path -> set(path of workspace fns)
        self.ext = {}         # path -> list of (declared name, resolved name, span) of every fn const (workspace or not)
        self.callers = {}
        for f in prog.fns.values():
            p = f["path"]
            cs = self.callees.setdefault(p, set())
            ex = self.ext.setdefault(p, [])
            bodies = [f["body"]] + [q["body"] for q in f.get("promoted", [])]
            for b in bodies:
                for blk in b["blocks"]:
                    if blk["cleanup"]:
                        continue
                    span = blk["term"].get("span")

                    def see(d, span=span):
                        fj = d.get("fn")
                        if isinstance(fj, dict) and "path" in fj and d.get("k", "fndef") == "fndef":
                            r = fj.get("resolved") or fj
                            ex.append((fj["name"], r["name"], span, fj))
                            if r["path"] in prog.fns:
                                cs.add(r["path"])
                            elif fj["path"] in prog.fns:
                                cs.add(fj["path"])
                    _walk(blk, see)
                    t = blk["term"]
                    if t["t"] == "drop" and prog.drop_impls:
                        tys = b["locals"][t["place"]["local"]]["ty"]["s"]
                        for adt, df in prog.drop_impls.items():
                            if adt in tys:
                                cs.add(df["path"])
            if f.get("parent") and f["kind"] == "Closure":
                self.callees.setdefault(f["parent"], set()).add(p)
        for p, cs in self.callees.items():
            for c in cs:
                self.callers.setdefault(c, set()).add(p)

    def reach_back(self, direct):
        """direct: {path: reason}.  Returns {path: (next hop or None, reason)} for every function from which a direct site is reachable."""
        out = {p: (None, r) for p, r in direct.items()}
        work = list(direct)
        while work:
            p = work.pop()
            for c in self.callers.get(p, ()):
                if c not in out:
                    out[c] = (p, out[p][1])
                    work.append(c)
        return out

    def path_of(self, reach, p):
        names = []
        seen = set()
        while p is not None and p not in seen:
            seen.add(p)
            names.append(self.prog.fns[p]["name"])
            p = reach[p][0]
        return names


# ---- sink predicates: each returns {fn path: reason} ------------------------------------

def bodies_of(f):
    return [f["body"]] + [q["body"] for q in f.get("promoted", [])]


def sink_field_writes(prog, adt, fields=None, crates=None):
    """assignments through, mutable borrows / raw pointers of, and call results stored into a field of `adt`"""
    out = {}
    for f in prog.fns.values():
        if crates and f["crate"] not in crates:
            continue
        for b in bodies_of(f):
            for blk in b["blocks"]:
                if blk["cleanup"]:
                    continue
                places = []
                for s in blk["stmts"]:
                    if s["st"] == "assign":
                        places.append(("assign", s["place"]))
                        rv = s["rvalue"]
                        if (rv.get("rv") == "ref" and rv.get("mut")) or rv.get("rv") == "rawptr":
                            places.append(("&mut", rv["place"]))
                    elif s["st"] == "setdiscr":
                        places.append(("assign", s["place"]))
                t = blk["term"]
                if t["t"] == "call":
                    places.append(("assign", t["dest"]))
                for how, pl in places:
                    for e in pl["proj"]:
                        if e["k"] == "field" and e.get("of") == adt and (fields is None or e.get("name") in fields):
                            out.setdefault(f["path"], "%s %s.%s" % (how, adt.rsplit("::", 1)[1], e.get("name")))
                    # `*r = value` through a reference (or into a container element): replaces every field at once
                    if how == "assign" and fields is None and pl["proj"] and any(e["k"] == "deref" for e in pl["proj"]) and pl["proj"][-1]["k"] != "field" \
                            and re.match(re.escape(adt) + r"(<|$)", str(pl.get("ty", ""))):
                        out.setdefault(f["path"], "overwrites a whole %s through a reference" % adt.rsplit("::", 1)[1])
    return out


def sink_constructs(prog, adt, variants=None, crates=None):
    out = {}
    for f in prog.fns.values():
        if crates and f["crate"] not in crates:
            continue
        for b in bodies_of(f):
            for blk in b["blocks"]:
                if blk["cleanup"]:
                    continue
                for s in blk["stmts"]:
                    if s["st"] == "assign" and s["rvalue"].get("rv") == "aggregate" and s["rvalue"].get("agg") == "adt" and s["rvalue"].get("adt") == adt:
                        if variants is None or s["rvalue"].get("vname") in variants:
                            out.setdefault(f["path"], "constructs %s%s" % (adt.rsplit("::", 1)[1], "::" + s["rvalue"]["vname"] if variants else ""))
    return out


def sink_calls(prog, pattern, crates=None, self_not=None):
    """functions containing a call of (or a function value naming) something whose declared or resolved name matches"""
    g = Graph.of(prog)
    rx = re.compile(pattern)
    out = {}
    for f in prog.fns.values():
        if crates and f["crate"] not in crates:
            continue
        for decl, res, span, fj in g.ext[f["path"]]:
            if rx.search(decl) or rx.search(res):
                out.setdefault(f["path"], "calls %s" % (res if rx.search(res) else decl))
    return out


# ---- entry points ---------------------------------------------------------------------

def entries(prog, crates):
    return [f for f in prog.fns.values() if f["crate"] in crates and f["kind"] in ("Fn", "AssocFn") and f.get("reachable")]


def derived(f):
    """derived impls that only copy, compare, hash or print what is there (a derived Default builds a value of its own and is not exempt)"""
    imp = f.get("impl") or {}
    return bool(imp.get("automatically_derived")) and imp.get("trait") in ("core::clone::Clone", "core::cmp::PartialEq", "core::cmp::Eq", "core::hash::Hash", "core::fmt::Debug",
                                                                              "core::cmp::PartialOrd", "core::cmp::Ord", "core::marker::StructuralPartialEq", "core::marker::Copy")


def is_fn(f, self_adt=None, item=None, trait=None, name=None):
    imp = f.get("impl") or {}
    if name is not None:
        return f["name"] == name
    if item is not None and f.get("item") != item:
        return False
    if self_adt is not None and imp.get("self_adt") != self_adt:
        return False
    if trait is False and "trait" in imp:
        return False
    if trait not in (None, False) and imp.get("trait") != trait:
        return False
    return True


class _T(str):
    """a type string whose `in` test matches whole path segments (Page does not match PageId, Frame does not match FrameError)"""
    def __contains__(self, adt):
        return re.search(re.escape(adt) + r"(?![A-Za-z0-9_])", str(self)) is not None


def ty_s(f):
    ins = " ; ".join(t["s"] for t in f.get("inputs", []))
    return _T(ins), _T(f.get("output", {}).get("s", ""))


def mut_param_types(f):
    return [t["s"] for t in f.get("inputs", []) if t.get("k") == "ref" and t.get("mut")]


PURE_STD = re.compile(r"^(core::str::<impl str>::as_bytes|core::convert::AsRef::as_ref|<.* as core::convert::AsRef<.*>>::as_ref|core::ops::deref::Deref::deref|<.* as core::ops::deref::Deref>::deref"
                      r"|core::convert::Into::into|<T as core::convert::Into<U>>::into|<T as core::convert::From<T>>::from|core::iter::sources::once::once|core::iter::traits::collect::IntoIterator::into_iter"
                      r"|<I as core::iter::traits::collect::IntoIterator>::into_iter|core::ops::try_trait::Try::branch|<core::result::Result<T, E> as core::ops::try_trait::Try>::branch"
                      r"|core::ops::try_trait::FromResidual::from_residual|<core::result::Result<T, F> as core::ops::try_trait::FromResidual<core::result::Result<core::convert::Infallible, E>>>::from_residual"
                      r"|alloc::rc::Rc::<T>::new|core::cell::RefCell::<T>::new|alloc::boxed::Box::<T>::new)$")


def _is_value_const(o):
    if o.get("op") != "const":
        return False
    if "fn" in o:
        return False
    v = o.get("val")
    return not (v is not None and v.get("k") == "zst")


def forwarder(prog, f, analysed_paths):
    """`f` is a transparent forwarder to one analysed entry point: straight-line code (apart from `?`), exactly one call of an analysed
    entry, every other call a content-preserving std conversion, no arithmetic, indexing, slicing or comparison, no other workspace call.
    Such a function adds a name for the analysed behaviour, not a behaviour.  Returns (ok, reason)."""
    if f.get("promoted"):
        return False, "has promoted constants"
    b = f["body"]
    blocks = {blk["i"]: blk for blk in b["blocks"] if not blk["cleanup"]}
    n_target = n_branch = n_switch = 0
    succ = {}
    for i, blk in blocks.items():
        for st in blk["stmts"]:
            if st["st"] != "assign":
                return False, "statement %s" % st["st"]
            rv = st["rvalue"]
            k = rv["rv"]
            places = [st["place"]] + ([rv["place"]] if "place" in rv else [])
            for pl in places:
                if any(e["k"] in ("index", "cindex", "subslice") for e in pl["proj"]):
                    return False, "indexes or slices"
            if k == "use" and _is_value_const(rv["x"]):
                return False, "uses a constant"
            if k in ("use", "ref", "discr"):
                continue
            if k == "cast" and "Pointer" in rv.get("kind", ""):
                continue
            if k == "aggregate" and (rv.get("agg") == "tuple" or rv.get("adt") in ("core::result::Result", "core::option::Option")):
                continue
            return False, "computes (%s)" % k
        t = blk["term"]
        k = t["t"]
        if k == "call":
            fj = t["func"].get("fn")
            if not fj:
                return False, "indirect call"
            if any(_is_value_const(a) for a in t["args"]):
                return False, "passes a constant"
            r = fj.get("resolved") or fj
            if r["path"] in analysed_paths or fj["path"] in analysed_paths:
                n_target += 1
            elif r["path"] in prog.fns or fj["path"] in prog.fns:
                return False, "calls %s" % r["name"]
            elif PURE_STD.match(fj["name"]) or PURE_STD.match(r["name"]):
                if "try_trait::Try" in fj["name"]:
                    n_branch += 1
            else:
                return False, "calls %s" % r["name"]
            succ[i] = [t["target"]] if t["target"] is not None else []
        elif k == "goto":
            succ[i] = [t["target"]]
        elif k == "switch":
            n_switch += 1
            succ[i] = [a[1] for a in t["arms"]] + [t["otherwise"]]
        elif k == "drop":
            succ[i] = [t["target"]]
        elif k in ("return", "unreachable"):
            succ[i] = []
        else:
            return False, "terminator %s" % k
    if n_target != 1:
        return False, "%d calls of analysed entry points" % n_target
    if n_switch > n_branch:
        return False, "branches on something other than `?`"
    # acyclic
    state = {}
    def dfs(n):
        state[n] = 1
        for m in succ.get(n, ()):
            if m not in blocks:
                continue
            if state.get(m) == 1 or (state.get(m) is None and not dfs(m)):
                return False
        state[n] = 2
        return True
    if not dfs(0):
        return False, "has a loop"
    for c in prog.closures_of(f["path"]):
        return False, "has a closure"
    return True, "forwards to one analysed entry point"


CONTENT_PRESERVING = re.compile(r"^(alloc::borrow::Cow::<.*>::into_owned|<.* as core::clone::Clone>::clone|core::clone::Clone::clone|alloc::borrow::ToOwned::to_owned"
                                r"|<.* as alloc::borrow::ToOwned>::to_owned|alloc::slice::<impl \[T\]>::to_vec|core::ops::deref::Deref::deref|<.* as core::ops::deref::Deref>::deref"
                                r"|core::convert::AsRef::as_ref|<.* as core::convert::AsRef<.*>>::as_ref|core::convert::Into::into|<T as core::convert::Into<U>>::into"
                                r"|core::convert::From::from|<.* as core::convert::From<.*>>::from)$")


def rebuilds_from_own_fields(prog, f, adt):
    """`f` builds a value of `adt` whose every field is the same field of a value of `adt` it was given, passed only through
    content-preserving std conversions (`into_owned`, `clone`, `to_owned`, `to_vec`, `Cow::Owned(..)`, `into`): an `into_owned` /
    `to_owned` style conversion.  Nothing a field could not already hold is put into it.  Returns (ok, reason)."""
    if f.get("promoted") or prog.closures_of(f["path"]):
        return False, "has promoted constants or closures"
    b = f["body"]
    nargs = b["arg_count"]
    defs = {}
    aggs = []
    for blk in b["blocks"]:
        if blk["cleanup"]:
            continue
        for st in blk["stmts"]:
            if st["st"] != "assign":
                return False, "statement %s" % st["st"]
            pl, rv = st["place"], st["rvalue"]
            if any(e["k"] in ("index", "cindex", "subslice") for e in pl["proj"]):
                return False, "indexes or slices"
            if rv["rv"] in ("binop", "unop", "repeat", "len", "discr"):
                return False, "computes (%s)" % rv["rv"]
            if rv["rv"] == "aggregate" and rv.get("adt") == adt:
                aggs.append(rv)
            if not pl["proj"]:
                defs.setdefault(pl["local"], []).append(("rv", rv))
        t = blk["term"]
        if t["t"] == "call":
            fj = t["func"].get("fn")
            if not fj:
                return False, "indirect call"
            r = fj.get("resolved") or fj
            if r["path"] in prog.fns or fj["path"] in prog.fns:
                return False, "calls %s" % r["name"]
            if not (CONTENT_PRESERVING.match(fj["name"]) or CONTENT_PRESERVING.match(r["name"])):
                return False, "calls %s" % r["name"]
            if not t["dest"]["proj"]:
                defs.setdefault(t["dest"]["local"], []).append(("call", t))
        elif t["t"] in ("switch", "assert"):
            return False, "branches"
        elif t["t"] not in ("goto", "drop", "return", "unreachable", "resume"):
            return False, "terminator %s" % t["t"]
    if len(aggs) != 1:
        return False, "%d constructions" % len(aggs)

    def origin(o, depth=0):
        if depth > 12 or o.get("op") not in ("copy", "move"):
            return None
        pl = o["place"]
        proj = [e for e in pl["proj"] if e["k"] != "deref"]
        if proj:
            if len(proj) == 1 and proj[0]["k"] == "field" and proj[0].get("of") == adt:
                base = pl["local"]
                if 1 <= base <= nargs:
                    return proj[0]["i"]
                d = defs.get(base, [])
                # a reborrow / move of the parameter itself
                if len(d) == 1 and d[0][0] == "rv" and d[0][1]["rv"] in ("use", "ref"):
                    src = d[0][1].get("x", {}).get("place") or d[0][1].get("place")
                    if src and not [e for e in src["proj"] if e["k"] != "deref"] and 1 <= src["local"] <= nargs:
                        return proj[0]["i"]
            return None
        d = defs.get(pl["local"], [])
        if len(d) != 1:
            return None
        kind, x = d[0]
        if kind == "call":
            return origin(x["args"][0], depth + 1) if len(x["args"]) == 1 else None
        if x["rv"] == "use":
            return origin(x["x"], depth + 1)
        if x["rv"] == "ref":
            return origin({"op": "copy", "place": x["place"]}, depth + 1)
        if x["rv"] == "cast" and "Pointer" in x.get("kind", ""):
            return origin(x["x"], depth + 1)
        if x["rv"] == "aggregate" and x.get("adt") == "alloc::borrow::Cow" and len(x["ops"]) == 1:
            return origin(x["ops"][0], depth + 1)
        return None
    for k, o in enumerate(aggs[0]["ops"]):
        if origin(o) != k:
            return False, "field %d is not rebuilt from the same field of an argument" % k
    return True, "rebuilds every field from the same field of its argument"


def closed(chk, prog, rule, role, crates, direct, authorised, floor, what):
    """every externally reachable function of `crates` from which a `direct` site is reachable is in `authorised` (list of predicates)"""
    g = Graph.of(prog)
    reach = g.reach_back(direct)
    n_ok = 0
    for f in sorted(entries(prog, crates), key=lambda f: f["name"]):
        if f["path"] not in reach:
            continue
        if derived(f):
            continue
        ok = any(a(f) for a in authorised)
        names = g.path_of(reach, f["path"])
        why = ""
        if not ok and f["path"] not in direct:
            apaths = {x["path"] for x in prog.fns.values() if any(a(x) for a in authorised)}
            fw, why = forwarder(prog, f, apaths)
            if fw:
                chk.ob(rule, "%s: `%s` only forwards its arguments to one analysed entry point and returns its result" % (role, f["name"]), True, where=loc(f["span"]))
                continue
        chk.ob(rule, "%s: `%s` is an entry point the rule set analyses (%s), or a transparent forwarder to one" % (role, f["name"], what), ok, key="surface:%s:%s" % (role, f["name"]), where=loc(f["span"]),
               detail="reaches a site that %s via %s%s" % (reach[f["path"]][1], " -> ".join(names), "; not a forwarder: " + why if why else ""))
        n_ok += 1 if ok else 0
    chk.floor(rule, "%s: analysed entry points found reaching the role's sites" % role, n_ok, floor)
    return n_ok


def closed_sig(chk, prog, rule, role, crates, pred, authorised, floor, what):
    """every externally reachable function of `crates` with the role's signature is in `authorised`"""
    n_ok = 0
    for f in sorted(entries(prog, crates), key=lambda f: f["name"]):
        if derived(f) or not pred(f):
            continue
        ok = any(a(f) for a in authorised)
        why = ""
        if not ok:
            apaths = {x["path"] for x in prog.fns.values() if any(a(x) for a in authorised)}
            fw, why = forwarder(prog, f, apaths)
            if fw:
                chk.ob(rule, "%s: `%s` only forwards its arguments to one analysed entry point and returns its result" % (role, f["name"]), True, where=loc(f["span"]))
                continue
        chk.ob(rule, "%s: `%s` is an entry point the rule set analyses (%s), or a transparent forwarder to one" % (role, f["name"], what), ok, key="surface:%s:%s" % (role, f["name"]), where=loc(f["span"]),
               detail="signature (%s) -> %s%s" % (ty_s(f) + ("; not a forwarder: " + why if why else "",)))
        n_ok += 1 if ok else 0
    chk.floor(rule, "%s: analysed entry points found with the role's signature" % role, n_ok, floor)
    return n_ok


def fields_private(chk, prog, rule, role, adts):
    """no field of a protected type is visible outside its crate (a public field is a setter for everybody)"""
    n = 0
    for adt in adts:
        a = prog.adts.get(adt)
        if not a:
            chk.ob(rule, "%s: type %s found" % (role, adt), False, key="surface:%s:adt:%s" % (role, adt))
            continue
        for v in a["variants"]:
            for fl in v["fields"]:
                n += 1
                chk.ob(rule, "%s: %s.%s is not public" % (role, adt.rsplit("::", 1)[1], fl["name"]), str(fl["vis"]).startswith("restricted:"), key="surface:%s:field-vis:%s.%s" % (role, adt, fl["name"]), detail=str(fl["vis"]))
    return n


# ---- the roles --------------------------------------------------------------------------

CORE = ("flipdot_core",)
ALL = ("flipdot_core", "flipdot_serial", "flipdot_testing", "flipdot")


def role_vsign(chk, prog, rule):
    """who can change or build a VirtualSign / reach into a VirtualSignBus's signs"""
    d = {}
    d.update(sink_field_writes(prog, VSIGN))
    d.update(sink_constructs(prog, VSIGN))
    d.update(sink_field_writes(prog, VBUS))
    d.update(sink_constructs(prog, VBUS))
    auth = [lambda f: is_fn(f, VSIGN, "new", trait=False), lambda f: is_fn(f, VSIGN, "process_message", trait=False),
            lambda f: is_fn(f, VBUS, "new", trait=False), lambda f: is_fn(f, VBUS, "process_message", trait=BUS_TRAIT),
            # the bridge forwards to whatever bus it holds; it is analysed by C17 and holds no sign state of its own
            lambda f: is_fn(f, ODK, "process_message", trait=False)]
    fields_private(chk, prog, rule, "sign-state", (VSIGN, VBUS))
    return closed(chk, prog, rule, "sign-state", ALL, d, auth, 4, "VirtualSign::new / process_message, VirtualSignBus::new / process_message")


def role_bus_impls(chk, prog, rule):
    """the workspace's implementations of SignBus are the two analysed ones"""
    n = 0
    for f in sorted(prog.fns.values(), key=lambda f: f["name"]):
        imp = f.get("impl") or {}
        if imp.get("trait") == BUS_TRAIT and f.get("item") == "process_message":
            ok = imp.get("self_adt") in (VBUS, SSB)
            chk.ob(rule, "bus-impl: `%s` is one of the analysed SignBus implementations (SerialSignBus, VirtualSignBus)" % f["name"], ok, key="surface:bus-impl:%s" % f["name"], where=loc(f["span"]),
                   detail="impl SignBus for %s" % imp.get("self_ty"))
            n += 1 if ok else 0
    chk.floor(rule, "bus-impl: analysed SignBus implementations found", n, 2)
    return n


def role_controller(chk, prog, rule):
    """who can put a message on the controller's bus"""
    d = sink_calls(prog, r"^flipdot_core::sign_bus::SignBus::process_message$|as flipdot_core::sign_bus::SignBus>::process_message", crates=("flipdot",))
    ops = ("configure", "configure_if_needed", "send_pages", "show_loaded_page", "load_next_page", "shut_down")
    auth = [lambda f: is_fn(f, SIGN, trait=False) and f.get("item") in ops]
    return closed(chk, prog, rule, "controller-op", ("flipdot",), d, auth, 6, "the six documented Sign operations")


def role_serial(chk, prog, rule):
    """who can touch the serial bus's port, sleep, or build a SerialSignBus"""
    d = {}
    d.update(sink_field_writes(prog, SSB))
    d.update(sink_constructs(prog, SSB))
    d.update(sink_calls(prog, r"^std::thread::(functions::)?sleep", crates=("flipdot_serial",)))
    auth = [lambda f: is_fn(f, SSB, "try_new", trait=False), lambda f: is_fn(f, SSB, "new", trait=False), lambda f: is_fn(f, SSB, "process_message", trait=BUS_TRAIT)]
    fields_private(chk, prog, rule, "serial-io", (SSB,))
    return closed(chk, prog, rule, "serial-io", ALL, d, auth, 2, "SerialSignBus::try_new and its SignBus::process_message")


def role_odk(chk, prog, rule):
    """who can touch the bridge's port or bus, or build an Odk"""
    d = {}
    d.update(sink_field_writes(prog, ODK))
    d.update(sink_constructs(prog, ODK))
    auth = [lambda f: is_fn(f, ODK, "try_new", trait=False), lambda f: is_fn(f, ODK, "new", trait=False), lambda f: is_fn(f, ODK, "process_message", trait=False)]
    fields_private(chk, prog, rule, "bridge-io", (ODK,))
    return closed(chk, prog, rule, "bridge-io", ALL, d, auth, 2, "Odk::try_new and Odk::process_message")


def role_port_setup(chk, prog, rule):
    """who can change a port's settings or timeout"""
    d = sink_calls(prog, r"::SerialPort::(reconfigure|configure|set_timeout)$|::SerialDevice::(write_settings|set_timeout)$")
    auth = [lambda f: is_fn(f, name="flipdot_serial::serial_port::configure_port"), lambda f: is_fn(f, SSB, "try_new", trait=False), lambda f: is_fn(f, SSB, "new", trait=False),
            lambda f: is_fn(f, ODK, "try_new", trait=False), lambda f: is_fn(f, ODK, "new", trait=False)]
    return closed(chk, prog, rule, "port-setup", ALL, d, auth, 3, "configure_port, SerialSignBus::try_new, Odk::try_new")


def role_decoder(chk, prog, rule):
    """who can turn wire text into a Frame or classify it"""
    d = {}
    d.update(sink_constructs(prog, FERR, variants=("InvalidFrame", "FrameDataMismatch", "BadChecksum"), crates=CORE))
    fb = [f for f in prog.fns.values() if is_fn(f, FRAME, "from_bytes", trait=False)]
    for f in fb:
        d.setdefault(f["path"], "is the decoder")
    auth = [lambda f: is_fn(f, FRAME, "from_bytes", trait=False), lambda f: is_fn(f, FRAME, "read", trait=False)]
    return closed(chk, prog, rule, "decoder", CORE, d, auth, 2, "Frame::from_bytes and Frame::read")


def role_stream(chk, prog, rule):
    """who in flipdot_core can read from or write to a byte stream"""
    d = sink_calls(prog, r"^std::io::(Read|BufRead|Write)::|^std::io::(buffered::)?(bufreader::)?BufReader|^std::io::(buffered::)?(bufwriter::)?BufWriter|^std::io::(buffered::)?(linewriter::)?LineWriter", crates=CORE)
    auth = [lambda f: is_fn(f, FRAME, "read", trait=False), lambda f: is_fn(f, FRAME, "write", trait=False)]
    return closed(chk, prog, rule, "stream-io", CORE, d, auth, 2, "Frame::read and Frame::write")


def role_msg_codec(chk, prog, rule):
    """who converts between Frame and Message"""
    def pred(f):
        i, o = ty_s(f)
        return (FRAME in i and MSG in o and MSG not in i) or (MSG in i and FRAME in o and FRAME not in i.replace(MSG, ""))
    auth = [lambda f: is_fn(f, item="from", trait="core::convert::From") and (f.get("impl") or {}).get("self_adt") in (FRAME, MSG)
            and f["inputs"][0].get("adt") in (FRAME, MSG) and f["inputs"][0].get("k") == "adt"]
    return closed_sig(chk, prog, rule, "message-codec", CORE, pred, auth, 2, "From<Frame> for Message and From<Message> for Frame")


BYTES_RE = re.compile(r"\[u8|Vec<u8>|\bString\b|\bstr\b")


def role_encoder(chk, prog, rule):
    """who turns a Frame / Data into bytes or text: takes one (not by &mut) and hands out bytes, or writes them through a &mut parameter"""
    def pred(f):
        i, o = ty_s(f)
        if FRAME not in i:
            return False
        outs = [o] + mut_param_types(f)
        return any(BYTES_RE.search(x) or re.fullmatch(r"&(?:'\w+ )?mut [A-Z]\w*", x) for x in outs if FRAME not in x or x is o) and MSG not in o
    names = ("to_bytes", "to_bytes_with_newline", "write", "data", "into_data")
    auth = [lambda f: is_fn(f, FRAME, trait=False) and f.get("item") in names,
            lambda f: (f.get("impl") or {}).get("trait", "").startswith("core::fmt::") or (f.get("impl") or {}).get("trait") in ("core::hash::Hash", "core::cmp::PartialEq")]
    return closed_sig(chk, prog, rule, "encoder", CORE, pred, auth, 4, "Frame::to_bytes / to_bytes_with_newline / write and the data accessors")


def role_config_table(chk, prog, rule):
    """who maps a SignType to configuration bytes or to dimensions"""
    def pred(f):
        i, o = ty_s(f)
        return STYPE in i and bool(re.search(r"\bu8\b|\bu32\b|\busize\b|\bu16\b|\bu64\b", o)) and "Result" not in o and STYPE not in o
    auth = [lambda f: is_fn(f, STYPE, "to_bytes", trait=False), lambda f: is_fn(f, STYPE, "dimensions", trait=False),
            lambda f: (f.get("impl") or {}).get("trait") in ("core::hash::Hash",)]
    return closed_sig(chk, prog, rule, "config-table", ALL, pred, auth, 2, "SignType::to_bytes and SignType::dimensions")


INT_RE = re.compile(r"^[ui](8|16|32|64|128|size)$")


def role_pixel_api(chk, prog, rule):
    """who changes a Page, and who reads a pixel by coordinates"""
    g = Graph.of(prog)
    ops = {n: [f for f in prog.fns.values() if is_fn(f, PAGE, n, trait=False)] for n in ("get_pixel", "set_pixel", "set_all_pixels")}
    w = dict(sink_field_writes(prog, PAGE))
    for n in ("set_pixel", "set_all_pixels"):
        for f in ops[n]:
            w.setdefault(f["path"], "is Page::%s" % n)
    r = {f["path"]: "is Page::get_pixel" for f in ops["get_pixel"]}
    reach_w, reach_r = g.reach_back(w), g.reach_back(r)
    names = ("new", "from_bytes", "get_pixel", "set_pixel", "set_all_pixels")
    apaths = {f["path"] for f in prog.fns.values() if is_fn(f, PAGE, trait=False) and f.get("item") in names}
    n_ok = 0
    for f in sorted(entries(prog, CORE), key=lambda f: f["name"]):
        if derived(f) or (f.get("impl") or {}).get("trait", "").startswith("core::fmt::"):
            continue
        if f["path"] in reach_w:
            reach, kind = reach_w, "changes a page"
        elif f["path"] in reach_r and any(INT_RE.match(t["s"]) for t in f.get("inputs", [])):
            reach, kind = reach_r, "reads a pixel by coordinates"
        else:
            continue
        ok = f["path"] in apaths
        why = ""
        if not ok and f["path"] not in w:
            fw, why = forwarder(prog, f, apaths)
            if fw:
                chk.ob(rule, "pixel-api: `%s` only forwards its arguments to one analysed entry point and returns its result" % f["name"], True, where=loc(f["span"]))
                continue
        chk.ob(rule, "pixel-api: `%s` (%s) is one of Page::new / from_bytes / get_pixel / set_pixel / set_all_pixels, or a transparent forwarder to one" % (f["name"], kind), ok,
               key="surface:pixel-api:%s" % f["name"], where=loc(f["span"]),
               detail="reaches a site that %s via %s%s" % (reach[f["path"]][1], " -> ".join(g.path_of(reach, f["path"])), "; not a forwarder: " + why if why else ""))
        n_ok += 1 if ok else 0
    chk.floor(rule, "pixel-api: analysed pixel operations found", n_ok, 3)
    return n_ok


def role_page_ctor(chk, prog, rule):
    """who hands out a Page it did not receive"""
    def pred(f):
        i, o = ty_s(f)
        return PAGE in o and PAGE not in i
    auth = [lambda f: is_fn(f, PAGE, "new", trait=False), lambda f: is_fn(f, PAGE, "from_bytes", trait=False)]
    return closed_sig(chk, prog, rule, "page-ctor", CORE, pred, auth, 2, "Page::new and Page::from_bytes")


def role_config_decoder(chk, prog, rule):
    """who turns bytes into a SignType"""
    def pred(f):
        i, o = ty_s(f)
        return STYPE in o and STYPE not in i and bool(re.search(r"\bu8\b", i))
    auth = [lambda f: is_fn(f, STYPE, "from_bytes", trait=False)]
    return closed_sig(chk, prog, rule, "config-decoder", ALL, pred, auth, 1, "SignType::from_bytes")


def role_data(chk, prog, rule):
    """who can build or change a Data (the <= 255 typestate): C01.O1's rule, as a leg"""
    import p_frame
    p_frame.data_typestate(chk, p_frame.Codec(prog), rule + ".data-state")
    return 1


def role_page(chk, prog, rule):
    """who can build or change a Page: C06.O5's rule, as a leg"""
    import p_page
    p_page.who_writes(chk, prog, p_page.PageCtx(prog), rule=rule + ".page-state")
    return 1


ROLES = {
    "sign-state": role_vsign, "bus-impl": role_bus_impls, "controller-op": role_controller, "serial-io": role_serial, "bridge-io": role_odk,
    "port-setup": role_port_setup, "decoder": role_decoder, "stream-io": role_stream, "message-codec": role_msg_codec, "encoder": role_encoder,
    "config-table": role_config_table, "data-state": role_data, "page-state": role_page,
    "pixel-api": role_pixel_api, "page-ctor": role_page_ctor, "config-decoder": role_config_decoder,
}

# which roles each property's behaviour can be reached through
ROLEMAP = {
    "C01": ("encoder", "decoder", "stream-io"),
    "C02": ("decoder", "stream-io", "data-state"),
    "C03": ("decoder", "encoder", "data-state"),
    "C04": ("message-codec",),
    "C05": ("message-codec", "encoder", "decoder"),
    "C06": ("pixel-api",),
    "C07": ("page-state", "pixel-api", "page-ctor"),
    "C08": ("controller-op", "sign-state", "page-state", "page-ctor"),
    "C09": ("controller-op", "page-state", "page-ctor", "config-table", "data-state"),
    "C10": ("controller-op", "page-state"),
    "C11": ("controller-op",),
    "C12": ("sign-state",),
    "C13": ("sign-state", "page-state", "page-ctor"),
    "C14": ("sign-state",),
    "C15": ("stream-io", "decoder"),
    "C16": ("serial-io",),
    "C17": ("serial-io", "bridge-io", "controller-op", "sign-state"),
    "C18": ("serial-io",),
    "C19": ("config-table", "config-decoder", "sign-state"),
    "C20": ("port-setup", "serial-io", "bridge-io"),
}


def check(chk, prog, pid, roles=None):
    """run the named roles as `<pid>.S` obligations"""
    rule = "%s.S" % pid
    n = 0
    for r in (ROLEMAP.get(pid, ()) if roles is None else roles):
        n += ROLES[r](chk, prog, rule)
    chk.note_analysed("surface_roles", list(ROLEMAP.get(pid, ()) if roles is None else roles))
    return n


if __name__ == "__main__":
    import sys
    from facts import ensure_facts, Program
    from common import Check
    d, key = ensure_facts()
    prog = Program(d)
    chk = Check("S00")
    check(chk, prog, "S00", sys.argv[1:] or list(ROLES))
    for o in chk.obligations:
        print(o)
