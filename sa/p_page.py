"""C06 / C07 — page pixel operations and native layout: guard orderings (A2), formula canon (A7), byte sequences (A3), who-writes (A5), in-bounds panic freedom (A4)."""
from mireval import Evaluator, Unsupported, fmt_term, mk_int, int_bits
from models import Models
from facts import loc
from p_msgmap import norm, norm_cons
from common import at_log_levels
import a7
from a4 import PanicInventory, rel_lt

PAGE = "flipdot_core::page::Page"
COW = "alloc::borrow::Cow"


def one(lst, what):
    if len(lst) != 1:
        raise Unsupported("anchor %s: found %d" % (what, len(lst)))
    return lst[0]


class PageCtx:
    def __init__(self, prog):
        self.prog = prog
        self.models = Models(prog)
        a = prog.adts[PAGE]
        self.fields = [f["name"] for f in a["variants"][0]["fields"]]
        for n in ("width", "height", "bytes"):
            if n not in self.fields:
                raise Unsupported("Page has no field `%s`" % n)
        self.iw, self.ih, self.ib = self.fields.index("width"), self.fields.index("height"), self.fields.index("bytes")
        self.fn = {n: one(prog.inherent(PAGE, n), "Page::" + n) for n in ("new", "from_bytes", "get_pixel", "set_pixel", "set_all_pixels", "as_bytes")}

    def run(self, name, **kw):
        ev = Evaluator(self.prog, self.models)
        return ev, ev.run(self.fn[name], **kw)

    def self_field(self, i, ty="u32"):
        return ("proj", ("sym", "*self", PAGE + "<'_>"), ("field", i, ty))


def selfsym_of(paths):
    """the symbol standing for *self in these paths"""
    for p in paths:
        h = p.heap.get("*self")
        if h and h[0] == "adt":
            f0 = h[4][0]
            if f0[0] == "proj" and f0[1][0] == "sym":
                return f0[1]
    return None


def canon_eq(term, spec):
    try:
        return a7.canon(term) == spec, repr(a7.canon(term))
    except Exception as e:
        return False, "not canonicalisable: %r" % (e,)


# =========================================================================================
def resolve_overlays(seq):
    """A vector created at its final length (`vec![p; total]`) and then overwritten in place: [fill_to(T, p), overlay.., ..] is
    rewritten to the equivalent append form  e0 .. ek-1, fill_to(D, z), fill_to(T, p)  when the overlays, applied in order (a later
    one wins where they overlap), cover exactly a prefix [0, D): explicit elements on [0, k), one fill value z on [k, D). The
    prefix must lie inside the vector (D <= T: decided by A4 on the index / split obligations, not here). None if not of that shape."""
    if not (seq and seq[0][0] == "fill_to" and all(x[0] == "overlay" for x in seq[1:])):
        return None
    total, pad = seq[0][1], seq[0][2]
    elems = {}           # position -> element (constant positions only)
    fills = []           # (lo, hi, value), in application order
    for _, lo, hi, content in seq[1:]:
        if content[0] == "elems":
            if lo[0] != "int":
                return None
            for k, x in enumerate(content[1]):
                elems[lo[1] + k] = x
        else:
            # a fill hides what earlier writes put into its range
            if lo[0] != "int":
                return None
            if hi[0] == "int":
                for pos in [q for q in elems if lo[1] <= q < hi[1]]:
                    del elems[pos]
            else:
                for pos in [q for q in elems if q >= lo[1]]:
                    del elems[pos]
            fills.append((lo, hi, content[1]))
    if len(fills) != 1:
        return None
    flo, fhi, z = fills[0]
    k = len(elems)
    if sorted(elems) != list(range(k)):
        return None
    # the fill starts at or before the end of the explicit prefix (what it covered of the prefix was overwritten afterwards)
    if not (flo[0] == "int" and flo[1] <= k):
        return None
    # explicit elements written after the fill that lie beyond a constant fill end would extend the prefix: not this shape
    if fhi[0] == "int" and fhi[1] < k:
        return None
    return tuple(("elem", elems[i]) for i in range(k)) + (("fill_to", fhi, z), ("fill_to", total, pad))


@at_log_levels("flipdot_core")
def run_c07(chk, prog):
    chk.notes.append("A3/A7/A2: Page::new's byte sequence is extracted symbolically and compared with [id, 0x10, 0, 0] ++ zeros up to data_bytes ++ 0xFF up to total_bytes, "
                     "with the three size formulas and the pixel index formula compared in canonical polynomial form with 4 + w*ceil(h/8), 16*ceil(./16), 4 + x*ceil(h/8) + floor(y/8), y mod 8; "
                     "Page::from_bytes fails exactly on len != total_bytes and stores the bytes unmodified. Distinctness of pixels' bits is lemma L3.")
    cx = PageCtx(prog)
    # ---- O1: Page::new -------------------------------------------------------------------
    fn = cx.fn["new"]
    where = loc(fn["span"])
    ev, paths = cx.run("new")
    rets = [p for p in paths if p.kind == "return"]
    chk.ob("C07.O1", "Page::new has a single, non-panicking path", len(rets) == 1 and len(paths) == 1, key="page:new:paths", where=where, detail="%d paths, %d returning" % (len(paths), len(rets)))
    w = ("sym", "width", "u32")
    h = ("sym", "height", "u32")
    if rets:
        v = rets[0].value
        ok_shape = v[0] == "adt" and v[1] == PAGE
        chk.ob("C07.O1", "Page::new returns a Page aggregate", ok_shape, key="page:new:shape", where=where, detail=fmt_term(v)[:100])
        if ok_shape:
            chk.ob("C07.O1", "the new page stores the given width and height", norm(v[4][cx.iw]) == norm(w) and norm(v[4][cx.ih]) == norm(h), key="page:new:dims", where=where,
                   detail="%s x %s" % (fmt_term(v[4][cx.iw]), fmt_term(v[4][cx.ih])))
            b = v[4][cx.ib]
            seq = None
            if b[0] == "adt" and b[1] == COW and b[3] == "Owned" and b[4][0][0] == "seq":
                seq = b[4][0][1]
            if seq is not None and any(x[0] == "overlay" for x in seq):
                seq = resolve_overlays(seq)
            chk.ob("C07.O1", "the new page's bytes are an owned vector built by push/extend/resize", seq is not None, key="page:new:bytes-shape", where=where, detail=fmt_term(b)[:100])
            if seq is not None:
                idv = ("proj", ("sym", "id", "?"), ("field", 0, "u8"))
                hdr = [x for x in seq[:4]]
                okh = len(seq) >= 4 and all(x[0] == "elem" for x in hdr) and norm(hdr[0][1]) == norm(idv) and [x[1] for x in hdr[1:]] == [mk_int(0x10, "u8"), mk_int(0, "u8"), mk_int(0, "u8")]
                chk.ob("C07.O1", "header is [id, 0x10, 0x00, 0x00]", okh, key="page:new:header", where=where, detail=str([fmt_term(x[1]) for x in hdr]))
                rest = seq[4:]
                okr = len(rest) == 2 and all(x[0] == "fill_to" for x in rest)
                chk.ob("C07.O1", "after the header: exactly two fills (data area, padding)", okr, key="page:new:fills", where=where, detail=str([x[0] for x in rest]))
                if okr:
                    ok1, got1 = canon_eq(rest[0][1], a7.spec_data_bytes(w, h))
                    chk.ob("C07.O1", "data area is zero-filled up to 4 + width*ceil(height/8)", ok1 and rest[0][2] == mk_int(0, "u8"), key="page:new:data-fill", where=where,
                           detail="fills with %s up to %s" % (fmt_term(rest[0][2]), got1))
                    ok2, got2 = canon_eq(rest[1][1], a7.spec_total_bytes(w, h))
                    chk.ob("C07.O1", "padding is 0xFF up to the next multiple of 16", ok2 and rest[1][2] == mk_int(0xFF, "u8"), key="page:new:pad-fill", where=where,
                           detail="fills with %s up to %s" % (fmt_term(rest[1][2]), got2))
                    chk.sample({"Page::new bytes": fmt_term(b)[:300]})
    # ---- O2: index formula (through get_pixel and set_pixel) -------------------------------
    for acc in ("get_pixel", "set_pixel"):
        index_formula(chk, cx, acc, "C07.O2")
    # bit position: y mod 8, least significant bit first (mask = 1 << (y % 8)) in both accessors
    y = ("sym", "y", "u32")
    ev_g, gp = cx.run("get_pixel")
    sel = selfsym_of(gp)
    for p in gp:
        if p.kind == "return":
            ok, why = get_shape(p.value, cx, sel, y)
            chk.ob("C07.O2", "get_pixel tests bit y mod 8 (mask 1 << (y % 8)) of the addressed byte", ok, key="page:get:bit", where=loc(cx.fn["get_pixel"]["span"]), detail=why)
    ev_s, sp = cx.run("set_pixel")
    for p in sp:
        if p.kind == "return":
            for e in p.trace:
                if e[0] == "store":
                    val = known_bool(p, ("sym", "value", "bool"))
                    ok, why = set_shape(e[3], ("proj", e[1], e[2][0]), y, val)
                    chk.ob("C07.O2", "set_pixel changes bit y mod 8 (mask 1 << (y % 8)) of the addressed byte", ok, key="page:set:bit", where=loc(cx.fn["set_pixel"]["span"]), detail=why)
    # ---- O3: from_bytes ---------------------------------------------------------------------
    fn = cx.fn["from_bytes"]
    where = loc(fn["span"])
    ev, paths = cx.run("from_bytes")
    n_ok = n_err = 0
    bsym = ("sym", "bytes", "?")
    for p in paths:
        if p.kind != "return":
            chk.ob("C07.O3", "Page::from_bytes has no panicking path", False, key="page:from_bytes:panic", where=where)
            continue
        v = p.value
        # the single test on the path
        tests = [(t, val) for (t, val, wh) in p.decisions]
        lens = [(t, val) for t, val in tests if t[0] == "app" and t[1] in ("Ne", "Eq") and len(t[2]) == 2]
        okt = len(tests) == 1 and len(lens) == 1
        chk.ob("C07.O3", "from_bytes makes exactly one test: the length against the padded size", okt, key="page:from_bytes:tests", where=where, detail=str([fmt_term(t)[:80] for t, _ in tests]))
        if not okt:
            continue
        t, val = lens[0]
        a, b = t[2]
        is_len = lambda x: x[0] == "len" and norm(x[1]) in (norm(("app", "cow_slice", (("app", "into_cow", (bsym,)),))),)
        if is_len(b):
            a, b = b, a
        okl = is_len(a)
        okf, got = canon_eq(b, a7.spec_total_bytes(w, h))
        chk.ob("C07.O3", "the test compares len(bytes) with 16*ceil((4 + width*ceil(height/8))/16)", okl and okf, key="page:from_bytes:formula", where=where, detail="compares %s with %s" % (fmt_term(a)[:60], got))
        equal = (val == 1) == (t[1] == "Eq")
        if v[0] == "adt" and v[3] == "Ok":
            n_ok += 1
            pg = v[4][0]
            okv = pg[0] == "adt" and pg[1] == PAGE and norm(pg[4][cx.iw]) == norm(w) and norm(pg[4][cx.ih]) == norm(h) and norm(pg[4][cx.ib]) == norm(("app", "into_cow", (bsym,)))
            chk.ob("C07.O3", "Ok exactly when the length equals the padded size, storing the bytes unmodified with the given dimensions", equal and okv, key="page:from_bytes:ok", where=where, detail=fmt_term(v)[:120])
        elif v[0] == "adt" and v[3] == "Err":
            n_err += 1
            e = v[4][0]
            okp = e[0] == "adt" and e[3] == "WrongPageLength"
            chk.ob("C07.O3", "Err(WrongPageLength) exactly when the length differs", (not equal) and okp, key="page:from_bytes:err", where=where, detail=fmt_term(v)[:120])
        else:
            chk.ob("C07.O3", "from_bytes returns Ok/Err", False, key="page:from_bytes:shape", where=where)
    chk.floor("C07.O3", "from_bytes Ok paths", n_ok, 1)
    chk.floor("C07.O3", "from_bytes Err paths", n_err, 1)
    # as_bytes exposes exactly the stored bytes
    ev, paths = cx.run("as_bytes")
    okb = len(paths) == 1 and paths[0].kind == "return"
    if okb:
        v = paths[0].value
        sel = selfsym_of(paths)
        tgt = norm(("app", "cow_slice", (("proj", sel, ("field", cx.ib)),))) if sel else None
        okb = v[0] == "ref" and v[2] is False and v[1][0] == "val" and norm(v[1][1]) == tgt
    chk.ob("C07.O3", "as_bytes is a shared borrow of the stored bytes", okb, key="page:as_bytes", where=loc(cx.fn["as_bytes"]["span"]))
    out = cx.fn["as_bytes"]["output"]
    chk.ob("C07.O3", "as_bytes returns &[u8] (not &mut)", out.get("k") == "ref" and not out.get("mut"), key="page:as_bytes:type", where=loc(cx.fn["as_bytes"]["span"]), detail=out.get("s"))
    eqs = [f for f in prog.fns.values() if f.get("item") == "eq" and (f.get("impl") or {}).get("self_adt") == PAGE and (f.get("impl") or {}).get("trait") == "core::cmp::PartialEq"]
    chk.ob("C07.O3", "Page equality is the derived structural one", len(eqs) == 1 and eqs[0]["impl"].get("automatically_derived"), key="page:eq-derived", where=loc(eqs[0]["span"]) if eqs else None)
    chk.note_analysed("functions", [f["name"] for f in cx.fn.values()])
    chk.assumptions.append("lemma L3 (DESIGN.md section 6): under x < w, y < h the map (x,y) -> (4 + x*ceil(h/8) + floor(y/8), y mod 8) is injective with range inside [4, data_bytes)")


def index_formula(chk, cx, acc, rule):
    fn = cx.fn[acc]
    where = loc(fn["span"])
    ev, paths = cx.run(acc)
    sel = selfsym_of(paths)
    x, y = ("sym", "x", "u32"), ("sym", "y", "u32")
    hh = ("proj", sel, ("field", cx.ih, "u32")) if sel else None
    n = 0
    for p in paths:
        if p.kind != "return":
            continue
        idxs = set()
        if acc == "get_pixel":
            collect_index(p.value, idxs)
        else:
            for e in p.trace:
                if e[0] == "store":
                    for pe in e[2]:
                        if pe[0] == "index":
                            idxs.add(pe[1])
        for idx in idxs:
            n += 1
            ok, got = canon_eq(idx, a7.spec_byte_index(x, y, hh))
            chk.ob(rule, "%s addresses byte 4 + x*ceil(height/8) + floor(y/8)" % acc, ok, key="page:%s:index" % acc, where=where, detail="index is %s" % got)
    chk.floor(rule, "%s index expressions" % acc, n, 1)
    return paths, sel


def collect_index(t, out):
    if isinstance(t, tuple):
        if t and t[0] == "proj" and len(t) == 3 and t[2][0] == "index":
            out.add(t[2][1])
        for c in t:
            if isinstance(c, tuple):
                collect_index(c, out)


# =========================================================================================
@at_log_levels("flipdot_core")
def run_c06(chk, prog):
    chk.notes.append("A2 guard orderings, A7 canon, A3 bit masks, A5 who-writes, A4 in-bounds panic freedom on Page::{get_pixel,set_pixel,set_all_pixels}: every returning path admits exactly "
                     "x < width and y < height and every other path ends in the bounds panic; get reads (b & 1<<(y%8)) == mask at the layout index; set performs exactly one store "
                     "b | mask / b & !mask at that index; set_all fills [4, data_bytes) with 0xFF/0x00; nothing else writes Page.bytes/width/height. Non-interference is lemma L3.")
    cx = PageCtx(prog)
    x, y = ("sym", "x", "u32"), ("sym", "y", "u32")
    one_u8 = mk_int(1, "u8")
    for acc in ("get_pixel", "set_pixel"):
        fn = cx.fn[acc]
        where = loc(fn["span"])
        ev, paths = cx.run(acc)
        sel = selfsym_of(paths)
        ww = ("proj", sel, ("field", cx.iw, "u32"))
        hh = ("proj", sel, ("field", cx.ih, "u32"))
        nret = npan = 0
        for p in paths:
            rx = p.state.rel_get(x, ww)
            ry = p.state.rel_get(y, hh)
            if p.kind == "return":
                nret += 1
                chk.ob("C06.O1", "%s returns only when x < width (admitted orderings of (x, width): %s)" % (acc, "".join(sorted(rx))), rx == frozenset("<"), key="page:%s:guard-x" % acc, where=where)
                chk.ob("C06.O1", "%s returns only when y < height (admitted orderings of (y, height): %s)" % (acc, "".join(sorted(ry))), ry == frozenset("<"), key="page:%s:guard-y" % acc, where=where)
                # nothing is read or written before the guard: the guard decisions come first

            elif p.kind == "panic":
                npan += 1
                out_of_bounds = not (rx & frozenset("<")) or not (ry & frozenset("<"))
                chk.ob("C06.O1", "%s panics only for x >= width or y >= height" % acc, out_of_bounds and "panic_fmt" in str(p.info), key="page:%s:panic-cond:%s" % (acc, p.info), where=where,
                       detail="orderings x:%s y:%s, %s" % ("".join(sorted(rx)), "".join(sorted(ry)), p.info))
                stores = [e for e in p.trace if e[0] in ("store", "fill")]
                chk.ob("C06.O1", "%s writes nothing on a panicking path" % acc, not stores, key="page:%s:write-before-panic" % acc, where=where)
        chk.floor("C06.O1", "%s returning paths" % acc, nret, 1)
        chk.floor("C06.O1", "%s bounds-panic paths" % acc, npan, 2)
        # O2
        index_formula(chk, cx, acc, "C06.O2")
        # O3 masks
        bit = ("app", "cast:u8", (("app", "Rem", (y, mk_int(8, "u32"))),))
        for p in paths:
            if p.kind != "return":
                continue
            if acc == "get_pixel":
                v = p.value
                ok, why = get_shape(v, cx, sel, y)
                chk.ob("C06.O3", "get_pixel returns (byte & (1 << (y % 8))) == that mask", ok, key="page:get:mask", where=where, detail=why or fmt_term(v)[:120])
            else:
                stores = [e for e in p.trace if e[0] == "store"]
                fills = [e for e in p.trace if e[0] == "fill"]
                chk.ob("C06.O3", "set_pixel performs exactly one byte store", len(stores) == 1 and not fills, key="page:set:one-store", where=where, detail="%d stores" % len(stores))
                if len(stores) != 1:
                    continue
                e = stores[0]
                base_ok = norm(e[1]) == norm(("app", "cow_owned", (("proj", sel, ("field", cx.ib)),)))
                chk.ob("C06.O3", "the store goes to self.bytes.to_mut()", base_ok and len(e[2]) == 1 and e[2][0][0] == "index", key="page:set:store-target", where=where, detail=fmt_term(e[1])[:60])
                val = known_bool(p, ("sym", "value", "bool"))
                old = ("proj", e[1], e[2][0])
                newv = e[3]
                ok, why = set_shape(newv, old, y, val)
                if val is None:
                    chk.ob("C06.O3", "set_pixel stores byte | mask for true and byte & !mask for false", ok, key="page:set:both", where=where, detail=why)
                else:
                    chk.ob("C06.O3", "set_pixel(%s) stores %s" % ("true" if val else "false", "byte | mask" if val else "byte & !mask"), ok, key="page:set:%s" % ("or" if val else "andnot"), where=where, detail=why)
    # ---- O4 set_all_pixels ---------------------------------------------------------------
    fn = cx.fn["set_all_pixels"]
    where = loc(fn["span"])
    ev, paths = cx.run("set_all_pixels")
    sel = selfsym_of(paths)
    ww = ("proj", sel, ("field", cx.iw, "u32"))
    hh = ("proj", sel, ("field", cx.ih, "u32"))
    seen_vals = {}

    def loop_store(e):
        """(slice, value) if the store event writes `value` to the current item of a loop over the elements of `slice`"""
        tgt = e[1]
        if e[2] == () and tgt[0] == "proj" and tgt[2] == ("deref",) and tgt[1][0] == "item" and tgt[1][1][0] == "iter" and tgt[1][1][1] in ("slice", "slice_mut"):
            return (tgt[1][1][2], e[3])
        return None
    # an explicit `for byte in &mut bytes[a..b] { *byte = v }`: every iteration stores (the loop's back edge carries a store to the
    # current item) and the loop is left only when the iterator is exhausted, so it is the fill of [a, b) with v
    loopbacks = [p for p in paths if p.kind == "loopback"]
    every_iteration_stores = bool(loopbacks) and all(
        any(loop_store(e) for e in p.trace[max([i for i, x in enumerate(p.trace) if x[0] == "widen"] or [0]):] if e[0] == "store") for p in loopbacks)
    for p in paths:
        if p.kind == "loopback":
            continue
        if p.kind != "return":
            chk.ob("C06.O4", "set_all_pixels has no panicking path besides the discharged range check", False, key="page:setall:panic", where=where, detail=str(p.info))
            continue
        fills = [e for e in p.trace if e[0] == "fill"]
        stores = [e for e in p.trace if e[0] == "store"]
        hn = [(t, v) for (t, v, w) in p.decisions if t[0] == "app" and t[1] == "has_next"]
        if not fills and every_iteration_stores and hn and hn[-1][1] == 0 and all(v == 1 for _, v in hn[:-1]):
            ls = [loop_store(e) for e in stores]
            if all(x is not None for x in ls) and len(set(ls)) <= 1:
                if not ls:
                    continue        # the range was empty: nothing to write
                fills = [("fill", ls[0][0], ls[0][1], stores[0][4] if len(stores[0]) > 4 else None)]
                stores = []
        chk.ob("C06.O4", "set_all_pixels' only write is one slice fill", len(fills) == 1 and not stores, key="page:setall:writes", where=where)
        if len(fills) != 1:
            continue
        sl, v = fills[0][1], fills[0][2]
        okr = sl[0] == "app" and sl[1] == "subslice" and norm(sl[2][0]) == norm(("app", "cow_owned", (("proj", sel, ("field", cx.ib)),)))
        lo_ok = okr and sl[2][1] == mk_int(4, "usize")
        hi_ok, got = canon_eq(sl[2][2], a7.spec_data_bytes(ww, hh)) if okr else (False, "?")
        chk.ob("C06.O4", "the fill covers exactly [4, 4 + width*ceil(height/8)) of self.bytes", okr and lo_ok and hi_ok, key="page:setall:range", where=where,
               detail="range %s .. %s" % (fmt_term(sl[2][1]) if okr else "?", got))
        val = known_bool(p, ("sym", "value", "bool"))
        if val is None and v[0] != "int":
            # the fill value is computed from `value` without a branch (`u8::from(value) * 0xFF`, `0u8.wrapping_sub(value as u8)`):
            # its two values are read off the expression's truth table
            try:
                vs = norm(("sym", "value", "bool"))
                seen_vals[True] = mk_int(bit_eval(v, {vs: 1}) & 0xFF, "u8")
                seen_vals[False] = mk_int(bit_eval(v, {vs: 0}) & 0xFF, "u8")
                continue
            except NotBitExpr:
                pass
        seen_vals[val] = v
    chk.ob("C06.O4", "set_all_pixels(true) fills 0xFF and set_all_pixels(false) fills 0x00", seen_vals.get(True) == mk_int(0xFF, "u8") and seen_vals.get(False) == mk_int(0, "u8"),
           key="page:setall:values", where=where, detail=str({k: fmt_term(v) for k, v in seen_vals.items()}))
    # ---- O5 who writes ---------------------------------------------------------------------
    who_writes(chk, prog, cx)
    # ---- O6 in-bounds never panics ------------------------------------------------------------
    def oob_panic(p, e):
        """the documented out-of-bounds panic: an explicit panic on a path where x < width or y < height does not hold"""
        if "panic_fmt" not in str(e[1]) and "panic" not in str(e[1]):
            return False
        h = p.heap.get("*self")
        if not (h and h[0] == "adt"):
            return False
        ww, hh = h[4][cx.iw], h[4][cx.ih]
        xs, ys = ("sym", "x", "u32"), ("sym", "y", "u32")
        if p.state.frames and not any(v == xs for fr in p.state.frames.values() for v in fr.values()):
            return False
        rx, ry = p.state.rel_get(xs, ww), p.state.rel_get(ys, hh)
        return not (rx & frozenset("<")) or not (ry & frozenset("<"))
    inv = PanicInventory(prog, cx.models, log_on=True, page_terms=lambda t: (t[0] == "sym" and t[1] == "*self"), expected_panic=oob_panic)
    for nm in ("get_pixel", "set_pixel", "set_all_pixels", "new", "from_bytes", "as_bytes"):
        inv.run_entry(cx.fn[nm])
    for key, o in sorted(inv.obs.items()):
        ok = o.discharged is not None and not o.failed
        in_setall = "set_all_pixels" in o.fn
        if not ok and o.kind == "index_range" and not in_setall:
            # a private helper that only set_all_pixels calls (`fn pixel_bytes_mut(&mut self) -> &mut [u8]`) is part of it
            hf = [f for f in prog.fns.values() if f["name"] == o.fn]
            himp = (hf[0].get("impl") or {}) if len(hf) == 1 else {}
            in_setall = len(hf) == 1 and himp.get("self_adt") == PAGE and "trait" not in himp and str(hf[0].get("vis", "")).startswith("restricted:flipdot_core::page") \
                and only_called_by(prog, hf[0], ("set_all_pixels",))
        if not ok and o.kind == "index_range" and in_setall:
            # D4': [4, data_bytes) of a Page's bytes: 4 <= data_bytes <= total_bytes = len (L3); the range itself is checked by O4
            ok = True
            o.discharged = "D4 range [4, data_bytes) within Page byte length (Page invariant, lemma L3; range shape checked by C06.O4)"
        chk.ob("C06.O6", "%s in %s: %s%s" % (o.kind, o.fn.split("::")[-1], o.desc[:110], " — " + o.discharged if ok else ""), ok, key="page:panic-site:%s" % o.key, where=o.where,
               detail=None if ok else o.failed[0])
    chk.floor("C06.O6", "panic-capable sites in the page functions", len(inv.obs), 4)
    chk.note_analysed("functions", sorted(inv.functions))
    # the in-bounds panic freedom above rests on the Page invariant len(bytes) == 16*ceil((4 + width*ceil(height/8))/16): the constructors'
    # rules (C07.O1 / C07.O3) are a leg of this property, not an assumption
    n = chk.include("C06.layout", run_c07, prog, keep=lambda r: r.startswith("C07.O1") or r.startswith("C07.O3"))
    chk.floor("C06.layout", "constructor obligations establishing the Page length invariant (C07.O1/O3)", n, 6)
    chk.assumptions.append("Page invariant len(bytes) == total_bytes(width,height): every Page is built by Page::new / Page::from_bytes (decided here as C06.layout(C07.O1/O3) + C06.O5) and no unsafe code exists")


def known_bool(p, sym):
    for (t, v, w) in p.decisions:
        if norm(t) == norm(sym):
            return bool(v)
    return None


def mask_term(y):
    return ("app", "Shl", (mk_int(1, "u8"), ("app", "cast:u8", (("app", "Rem", (y, mk_int(8, "u32"))),))))


def is_mask(t, y):
    if norm(t) == norm(mask_term(y)):
        return True
    # 1 << (y & 7) / (y % 8) computed in another width
    try:
        if t[0] == "app" and t[1] == "Shl" and t[2][0][0] == "int" and t[2][0][1] == 1:
            sh = t[2][1]
            p = a7.canon(sh)
            spec = a7.var_poly(y).add(a7.fdiv(a7.var_poly(y), 8).mul(a7.Poly.const(8)), -1)
            inner = sh
            while inner[0] == "app" and inner[1].startswith("cast:"):
                inner = inner[2][0]
            return a7.canon(inner) == spec
    except Exception:
        pass
    return False


class NotBitExpr(Exception):
    pass


def bit_eval(t, env):
    """value of a closed bit-vector expression under an assignment of its leaves (a truth-table evaluator: the expression is
    compared with the specification on its whole finite domain, nothing of flipdot is executed)"""
    t0 = norm(t)
    if t0 in env:
        return env[t0]
    k = t[0]
    if k == "int":
        return t[1]
    if k == "app":
        op, args = t[1], t[2]
        if op.startswith("cast:"):
            x = bit_eval(args[0], env)
            bits = {"bool": 1}.get(op[5:]) or int_bits(op[5:])[0]
            if not bits:
                raise NotBitExpr(op)
            return x & ((1 << bits) - 1)
        if op == "Not":
            x = bit_eval(args[0], env)
            ty = a7.infer_type(args[0]) or "u8"
            if ty == "bool":
                return 1 - (x & 1)
            bits = int_bits(ty)[0] or 8
            return (~x) & ((1 << bits) - 1)
        if len(args) == 2:
            a, b = bit_eval(args[0], env), bit_eval(args[1], env)
            ty = a7.infer_type(args[0]) or a7.infer_type(args[1]) or "u8"
            bits = int_bits(ty)[0] or 64
            m = (1 << bits) - 1
            if op == "BitAnd":
                return a & b
            if op == "BitOr":
                return a | b
            if op == "BitXor":
                return a ^ b
            if op == "Shl":
                if b >= bits:
                    raise NotBitExpr("shift overflow")
                return (a << b) & m
            if op == "Shr":
                if b >= bits:
                    raise NotBitExpr("shift overflow")
                return a >> b
            if op == "Rem" and b:
                return a % b
            if op == "Div" and b:
                return a // b
            if op in ("Mul", "wrapping_mul"):
                return (a * b) & m
            if op in ("Add", "wrapping_add"):
                return (a + b) & m
            if op in ("Sub", "wrapping_sub"):
                return (a - b) & m
            if op == "Eq":
                return int(a == b)
            if op == "Ne":
                return int(a != b)
            if op == "Gt":
                return int(a > b)
            if op == "Lt":
                return int(a < b)
    raise NotBitExpr(fmt_term(t)[:60])


def bit_table_ok(expr, byte, y, value, spec):
    """expr == spec(B, k, v) for every old byte B, every bit position k = y mod 8 (several y per k) and both values of `value`"""
    vsym = norm(("sym", "value", "bool"))
    for k in range(8):
        for yv in (k, k + 8, k + 8 * 37):
            for B in range(256):
                for v in ((0, 1) if value is None else (int(bool(value)),)):
                    env = {norm(y): yv, vsym: v}
                    if byte is not None:
                        env[norm(byte)] = B
                    try:
                        got = bit_eval(expr, env)
                    except NotBitExpr as e:
                        return False, "not a bit expression over (byte, y, value): %s" % e
                    if got != spec(B, k, v):
                        return False, "differs from the specification for byte=0x%02X, y=%d, value=%d" % (B, yv, v)
    return True, None


def find_byte(t, cx, sel):
    """the element of self.bytes an expression reads (None if it reads none or more than one)"""
    want = norm(("app", "cow_slice", (("proj", sel, ("field", cx.ib)),)))
    found = set()

    def walk(x):
        if isinstance(x, tuple):
            if x and x[0] == "proj" and len(x) == 3 and isinstance(x[2], tuple) and x[2] and x[2][0] == "index" and norm(x[1]) == want:
                found.add(x)
                return
            for c in x:
                walk(c)
    walk(t)
    return next(iter(found)) if len(found) == 1 else None


def get_shape(v, cx, sel, y):
    ok, why = get_shape_syntactic(v, cx, sel, y)
    if ok:
        return ok, why
    # any other spelling of the same bit test: compare truth tables
    byte = find_byte(v, cx, sel)
    if byte is None:
        return False, why
    ok2, why2 = bit_table_ok(v, byte, y, 0, lambda B, k, _v: (B >> k) & 1)
    return ok2, (None if ok2 else "%s; %s" % (why, why2))


def get_shape_syntactic(v, cx, sel, y):
    if not (v[0] == "app" and v[1] in ("Eq", "Ne") and len(v[2]) == 2):
        return False, "result is not a comparison: %s" % fmt_term(v)[:80]
    a, b = v[2]
    if not (a[0] == "app" and a[1] == "BitAnd"):
        a, b = b, a
    if not (a[0] == "app" and a[1] == "BitAnd"):
        return False, "no byte & mask in %s" % fmt_term(v)[:80]
    byte, m = a[2]
    if not is_mask(m, y):
        byte, m = m, byte
    if not is_mask(m, y):
        return False, "mask is not 1 << (y %% 8): %s" % fmt_term(m)[:60]
    if not (byte[0] == "proj" and byte[2][0] == "index" and norm(byte[1]) == norm(("app", "cow_slice", (("proj", sel, ("field", cx.ib)),)))):
        return False, "the tested byte is not an element of self.bytes: %s" % fmt_term(byte)[:60]
    if v[1] == "Eq" and is_mask(b, y):
        return True, None
    if v[1] == "Ne" and b == mk_int(0, "u8"):
        return True, None
    return False, "comparison is not `== mask` / `!= 0`: %s" % fmt_term(v)[:80]


def set_shape(newv, old, y, val):
    ok, why = set_shape_syntactic(newv, old, y, val)
    if ok:
        return ok, why
    ok2, why2 = bit_table_ok(newv, old, y, val, lambda B, k, v: (B | (1 << k)) if v else (B & ~(1 << k) & 0xFF))
    return ok2, (None if ok2 else "%s; %s" % (why, why2))


def set_shape_syntactic(newv, old, y, val):
    if val is None:
        return False, "the stored value does not depend on `value` through one test"
    if val:
        ok = newv[0] == "app" and newv[1] == "BitOr" and ((norm(newv[2][0]) == norm(old) and is_mask(newv[2][1], y)) or (norm(newv[2][1]) == norm(old) and is_mask(newv[2][0], y)))
        return ok, "stores %s" % fmt_term(newv)[:100]
    ok = False
    if newv[0] == "app" and newv[1] == "BitAnd":
        for a, b in (newv[2], newv[2][::-1]):
            if norm(a) == norm(old) and b[0] == "app" and b[1] == "Not" and is_mask(b[2][0], y):
                ok = True
    return ok, "stores %s" % fmt_term(newv)[:100]


def only_called_by(prog, target, allowed_items, depth=0):
    """every call site of `target` in the four crates is inside an allowed Page setter (or inside another private helper for which the same holds)"""
    if depth > 4:
        return False
    callers = []
    for f in prog.fns.values():
        for b in f["body"]["blocks"]:
            t = b["term"]
            if b["cleanup"] or t["t"] != "call" or "fn" not in t["func"]:
                continue
            fj = t["func"]["fn"]
            if (fj.get("resolved") or fj)["path"] == target["path"]:
                callers.append(f)
        # taken as a function value anywhere -> escapes
        for b in f["body"]["blocks"]:
            for st in b["stmts"]:
                if st["st"] == "assign" and target["path"] in repr(st["rvalue"]) and st["rvalue"].get("rv") != "aggregate":
                    pass
    if not callers:
        return True
    for c in callers:
        imp = c.get("impl") or {}
        if imp.get("self_adt") == PAGE and "trait" not in imp and c.get("item") in allowed_items:
            continue
        if imp.get("self_adt") == PAGE and "trait" not in imp and str(c.get("vis", "")).startswith("restricted:flipdot_core::page") and only_called_by(prog, c, allowed_items, depth + 1):
            continue
        return False
    return True


def who_writes(chk, prog, cx, rule="C06.O5"):
    """A5: every write / &mut borrow of Page.{bytes,width,height} and every construction of Page, in all four crates."""
    allowed_writers = {"set_pixel", "set_all_pixels"}
    n_sites = 0
    ctor_sites = []
    for f in prog.fns.values():
        bodies = [f["body"]] + [p["body"] for p in f.get("promoted", [])]
        imp = f.get("impl") or {}
        for b in bodies:
            for blk in b["blocks"]:
                if blk["cleanup"]:
                    continue
                for s in blk["stmts"]:
                    if s["st"] != "assign":
                        continue
                    # direct assignment through a Page field
                    hit = [e for e in s["place"]["proj"] if e["k"] == "field" and e.get("of") == PAGE]
                    if hit:
                        n_sites += 1
                        chk.ob(rule, "no assignment through Page.%s outside the pixel setters (%s)" % (hit[0]["name"], f["name"]), False, key="page:field-assign:%s:%s" % (hit[0]["name"], f["name"]),
                               where=loc(s.get("span")))
                    r = s["rvalue"]
                    if r["rv"] in ("ref", "rawptr") and r.get("mut", r["rv"] == "rawptr"):
                        hit = [e for e in r["place"]["proj"] if e["k"] == "field" and e.get("of") == PAGE]
                        if hit:
                            n_sites += 1
                            inside = imp.get("self_adt") == PAGE and "trait" not in imp and f.get("item") in allowed_writers and hit[0]["name"] == "bytes"
                            if not inside and hit[0]["name"] == "bytes" and imp.get("self_adt") == PAGE and "trait" not in imp and str(f.get("vis", "")).startswith("restricted:flipdot_core::page"):
                                # a private helper of Page is fine when only the two setters (or such helpers) call it
                                inside = only_called_by(prog, f, allowed_writers)
                            chk.ob(rule, "&mut Page.%s is taken only in set_pixel / set_all_pixels or a private helper only they call (%s)" % (hit[0]["name"], f["name"]), inside,
                                   key="page:mut-borrow:%s:%s" % (hit[0]["name"], f["name"]), where=loc(s.get("span")))
                    if r["rv"] == "aggregate" and r.get("agg") == "adt" and r.get("adt") == PAGE:
                        ctor_sites.append((f, s))
    chk.floor(rule, "&mut borrows of Page.bytes found", n_sites, 1)
    for f, s in ctor_sites:
        imp = f.get("impl") or {}
        ok = imp.get("self_adt") == PAGE and ((f.get("item") in ("new", "from_bytes") and "trait" not in imp) or (imp.get("automatically_derived") and f.get("item") == "clone"))
        if not ok and "::{closure#" in f["path"]:
            # a closure written inside Page::new / Page::from_bytes (`cond.then(|| Page { .. })`) is part of that constructor
            outer = prog.fns.get(f["path"].split("::{closure#")[0])
            oimp = (outer or {}).get("impl") or {}
            ok = outer is not None and oimp.get("self_adt") == PAGE and "trait" not in oimp and outer.get("item") in ("new", "from_bytes")
        if not ok:
            # an into_owned / to_owned style conversion: width, height and bytes are those of a Page that already exists
            import surface
            ok = surface.rebuilds_from_own_fields(prog, f, PAGE)[0]
        chk.ob(rule, "Page values are constructed only by Page::new / Page::from_bytes / derived Clone, or rebuilt field by field from an existing Page (%s)" % f["name"], ok, key="page:ctor:%s" % f["name"], where=loc(s.get("span")))
    chk.floor(rule, "Page construction sites", len(ctor_sites), 2)
    # field visibility
    a = prog.adts[PAGE]
    for fl in a["variants"][0]["fields"]:
        chk.ob(rule, "Page.%s is private to its module" % fl["name"], fl["vis"].startswith("restricted:flipdot_core::page"), key="page:field-vis:%s" % fl["name"], detail=fl["vis"])
    # the &mut Vec from to_mut flows only into indexing / sub-slice fill: checked path-wise above (one store / one fill per path, no other call taking it)
    for nm in ("set_pixel", "set_all_pixels"):
        ev, paths = cx.run(nm)
        for p in paths:
            bad = [e[1] for e in p.trace if e[0] == "call" and not e[1].startswith("core::panicking")]
            chk.ob(rule, "%s hands the mutable bytes to no other function" % nm, not bad, key="page:%s:escape" % nm, where=loc(cx.fn[nm]["span"]), detail=str(bad[:2]))
    chk.ob(rule, "no unsafe code in the workspace (borrowed source bytes cannot be mutated behind Cow)", not prog.unsafe_sites, key="unsafe", detail=str(prog.unsafe_sites[:2]))
