"""C08 — control plane of `pages arrive bit-exact from any prior sign state`: product of the two *extracted* automata
(controller: A8 graph of Sign's operations; sign: A1 table of VirtualSign::process_message), over an abstract sign state.
Reference-free: neither spec/… table is consulted here."""
import itertools
from mireval import Unsupported, fmt_term
from facts import loc
from p_msgmap import norm
import p_vsign
import p_ctrl

RECEIVING = ("ConfigInProgress", "PixelsInProgress")


class AS:
    """abstract sign state"""
    __slots__ = ("state", "pages", "pending", "counter", "dims", "type", "flip", "gcnt", "gbuf", "gpages")

    def __init__(self, state, pages, pending, counter, dims, type_, flip, gcnt="?", gbuf="?", gpages="?"):
        self.state, self.pages, self.pending, self.counter, self.dims, self.type, self.flip = state, pages, pending, counter, dims, type_, flip
        self.gcnt, self.gbuf, self.gpages = gcnt, gbuf, gpages   # ghosts: sign counter == controller count; pending == bytes of the page in flight; pages == pages sent so far

    def key(self):
        return (self.state, self.pages, self.pending, self.counter, self.dims, self.type, self.flip, self.gcnt, self.gbuf, self.gpages)

    def core(self):
        return (self.state, self.pages, self.pending, self.counter, self.dims, self.type, self.flip)

    def copy(self, **kw):
        a = AS(self.state, self.pages, self.pending, self.counter, self.dims, self.type, self.flip, self.gcnt, self.gbuf, self.gpages)
        for k, v in kw.items():
            setattr(a, k, v)
        return a

    def __repr__(self):
        return "%s[pages=%s pending=%s counter=%s size=%s type=%s %s]" % (self.state, self.pages, self.pending, self.counter, self.dims, self.type, self.flip)


class SignModel:
    """the extracted sign table, used as a transition function on abstract states"""

    def __init__(self, prog, log_on=False):
        self.tab = p_vsign.SignTable(prog, log_on=log_on)
        self.rows = [r for r in self.tab.rows if "panic" not in r["effect"]]
        self.panic_rows = [r for r in self.tab.rows if "panic" in r["effect"]]
        self._cache = {}

    def effects(self, fv):
        """set of effect summaries of all rows admitting feature vector fv (should be a singleton)"""
        k = tuple(sorted(fv.items(), key=lambda x: x[0]))
        if k in self._cache:
            return self._cache[k]
        effs = []
        for r in self.tab.rows:
            if p_vsign.row_admits(r, fv):
                e = r["effect"]
                if "panic" in e:
                    effs.append(("panic", str(e["panic"])))
                else:
                    effs.append(tuple(sorted((kk, str(vv)) for kk, vv in p_vsign.eff_project(e).items())))
        effs = sorted(set(effs))
        self._cache[k] = effs
        return effs

    def step(self, a, kind, op=None, own=True, off0=None, config=False, arbitrary=False):
        """successor abstract states + reply for message class (kind, op) delivered to abstract state a.
        Returns list of (AS', reply) ; reply in (None, ('ReportState', state), ('AckOperation', op)) ; or [('panic', why)]"""
        out = []
        base = {"kind": kind, "state": a.state, "flip": a.flip, "own": own, "op": op,
                "pending_empty": a.pending == "empty", "wpos": a.dims != "unset", "hpos": a.dims != "unset"}
        # data-dependent features: enumerate the values consistent with the ghosts / the message
        var = {}
        if kind == "SendData":
            var["off0"] = [off0] if off0 is not None else [True, False]
            var["len16"] = [True] if config else [True, False]
            var["family"] = [4, 8] if config else [4, 8, "other"]
            var["page_ok"] = [True, False] if (arbitrary or a.gbuf == "?") else [a.gbuf == "sync"]
        elif kind == "DataChunksSent":
            var["counteq"] = [True, False] if (arbitrary or a.gcnt == "?") else [a.gcnt == "eq"]
            var["page_ok"] = [True, False] if (arbitrary or a.gbuf == "?") else [a.gbuf == "sync"]
        names = sorted(var)
        for combo in itertools.product(*[var[n] for n in names]):
            fv = dict(base)
            fv.update(dict(zip(names, combo)))
            fv = {k: v for k, v in fv.items() if v is not None or k in ("op",)}
            if fv.get("op") is None:
                fv.pop("op", None)
            effs = self.effects(fv)
            if not effs:
                out.append(("nopath", fv))
                continue
            for e in effs:
                if e[0] == "panic":
                    out.append(("panic", e[1]))
                    continue
                out.append(self.apply(a, dict(e), fv, arbitrary))
        # dedupe
        seen = {}
        res = []
        for o in out:
            k = (o[0].key(), o[1]) if isinstance(o[0], AS) else o
            if repr(k) not in seen:
                seen[repr(k)] = 1
                res.append(o)
        return res

    def apply(self, a, e, fv, arbitrary):
        b = a.copy()
        st = e["state"]
        if st != "unchanged":
            b.state = st
        rep = e["reply"]
        reply = None
        if rep != "None":
            r = eval(rep)
            if r[0] == "ReportState":
                reply = ("ReportState", a.state if r[2] == "pre-state" else r[2], r[1])
            else:
                reply = (r[0], r[2], r[1])
        pg = e["pages"]
        if pg == "cleared":
            b.pages = "empty"
            b.gpages = "sync"
        elif pg == "push":
            b.pages = "some"
            # the pushed page is the buffered one: stays in sync iff the buffer was the page in flight
            if b.gpages == "sync" and a.gbuf != "sync":
                b.gpages = "lost"
        pd = e["pending"]
        if pd == "cleared":
            b.pending = "empty"
        elif pd in ("append", "set"):
            b.pending = "some"
        c = e["counter"]
        if c == "0":
            b.counter = "0"
        elif c == "+1":
            b.counter = "+"
        d = e["dims"]
        if d == "0":
            b.dims = "unset"
        elif d == "from-data":
            b.dims = "any" if arbitrary else "same"
        t = e["type"]
        if t == "None":
            b.type = "none"
        elif t == "from-data":
            b.type = "any" if arbitrary else "same"
        # ghosts
        kind = fv["kind"]
        if kind == "SendData":
            if c == "+1":
                pass          # accepted: the sign counted it (gcnt unchanged)
            else:
                b.gcnt = "neq" if a.gcnt == "eq" else a.gcnt   # the controller counted a chunk the sign did not
            if pd in ("append", "set"):
                if fv.get("off0") and pd == "set":
                    b.gbuf = "sync" if a.gbuf in ("sync",) or True else a.gbuf   # a new page starts in the buffer
                    if a.gbuf != "sync" and a.pending != "empty":
                        pass
                if fv.get("off0") and a.pending != "empty" and e["pages"] != "push" and e["state"] == "unchanged" and a.dims != "unset":
                    b.gpages = "lost"
            else:
                b.gbuf = "lost" if a.gbuf == "sync" else a.gbuf
            if e["state"] == "PixelsFailed":
                b.gbuf = "lost"
        if kind == "RequestOperation" and reply is not None and fv.get("op") in ("ReceivePixels", "ReceiveConfig"):
            b.gcnt = "eq" if b.counter == "0" else "neq"
            b.gbuf = "sync" if b.pending == "empty" else "lost"
        if kind == "DataChunksSent" and c == "0":
            b.gcnt = "?"
        return (b, reply)


def expand_any(a):
    """'any' (set by arbitrary traffic) stands for every value"""
    ds = ["same", "other", "unset"] if a.dims == "any" else [a.dims]
    ts = ["same", "other", "none"] if a.type == "any" else [a.type]
    return [a.copy(dims=d, type=t) for d in ds for t in ts]


def reachable_sign_states(sm, flip):
    """least fixpoint of the sign under arbitrary traffic (any message class, any data-dependent condition)"""
    init = AS("Unconfigured", "empty", "empty", "0", "unset", "none", flip)
    seen = {init.core(): init}
    work = [init]
    tab = sm.tab
    panics = []
    while work:
        a = work.pop()
        msgs = []
        for k in tab.kinds:
            if k == "RequestOperation":
                for o in tab.ops:
                    msgs.append((k, o))
            else:
                msgs.append((k, None))
        for (k, o) in msgs:
            for own in ((True, False) if k in p_vsign.ADDRESSED else (True,)):
                for r in sm.step(a.copy(gcnt="?", gbuf="?", gpages="?"), k, o, own=own, arbitrary=True):
                    if r[0] == "panic":
                        panics.append((a, k, o, r[1]))
                        continue
                    if r[0] == "nopath":
                        continue
                    for b in expand_any(r[0]):
                        b = b.copy(gcnt="?", gbuf="?", gpages="?")
                        if b.core() not in seen:
                            seen[b.core()] = b
                            work.append(b)
    return list(seen.values()), panics


class Product:
    def __init__(self, prog, sm):
        self.prog = prog
        self.sm = sm
        self.ctl = {n: p_ctrl.controller(prog, n) for n in p_ctrl.ENTRIES}

    def classify_env(self, c, src_kind, e):
        """data-shape choice encoded by the has_next atoms of an edge: 'first' | 'next-chunk' | 'next-item' | 'done' | 'none' | 'invalid'"""
        it_items = p_ctrl.data_iter_of(c, c.name)
        seq = []
        for (t, v, w) in e.decisions:
            if t[0] == "app" and t[1] == "has_next":
                it = t[2][0]
                level = "C" if (it[0] == "iter" and it[1] in ("enumerate", "zip")) else "F" if (it[0] == "iter" and it[1] == "flat_map") else "I"
                seq.append((level, v))
        if not seq:
            return "none"
        if seq and all(l == "F" for l, _ in seq):
            # one flattened iterator over all chunks of all items (items.flat_map(|i| i.chunks(N).enumerate())): "there is a
            # next chunk" covers both the same item's next chunk and the next item's first one
            if seq == [("F", 0)]:
                return "done"
            if seq == [("F", 1)]:
                return "first" if src_kind == "X1" else ("next-chunk", "next-item")
            return "invalid"
        if src_kind == "X1":
            if seq == [("I", 1), ("C", 1)]:
                return "first"
            if seq == [("I", 0)]:
                return "done"
            if seq == [("C", 1)]:
                return "first"        # the items are a fixed collection walked concretely (`[block].into_iter()`): only chunk-level tests remain
            return "invalid"
        if src_kind == "X2":
            if seq == [("C", 0)]:
                return "done"         # (same: the last chunk of the last item of a fixed collection)
            if seq == [("C", 1)]:
                return "next-chunk"
            if seq == [("C", 0), ("I", 1), ("C", 1)]:
                return "next-item"
            if seq == [("C", 0), ("I", 0)]:
                return "done"
            return "invalid"
        return "invalid"

    def run(self, name, a0, env):
        """explore controller operation `name` against the sign from abstract state a0.
        env: 'config' (exactly one item of exactly one chunk) | 'pages' (any number of items, each >= 1 chunk)
        returns (terminals, problems): terminals = list of (outcome_sig, AS, trace)"""
        c = self.ctl[name]
        g = c.g
        X = p_ctrl.transfer_nodes(c)
        kindof = {}
        for k in X["X1"]:
            kindof[k] = "X1"
        for k in X["X2"]:
            kindof[k] = "X2"
        terminals = []
        problems = []
        start = g.start_edges[0].dst
        seen = set()
        # product state: (node key, AS key, off0 of the pending SendData, chunks-in-item flag)
        work = [(start, a0, True, ())]
        steps = 0
        while work:
            nk, a, off0, trace = work.pop()
            pk = (nk, a.key(), off0)
            if pk in seen:
                continue
            seen.add(pk)
            steps += 1
            if steps > 20000:
                problems.append(("budget", name, a0, trace))
                break
            node = g.nodes[nk]
            m = c.msgs[nk]
            sig = c.msg_sig(m)
            kind = sig[0]
            op = sig[2] if kind == "RequestOperation" else None
            if kind in p_vsign.ADDRESSED and sig[1] != "own":
                problems.append(("foreign-address", name, a0, trace))
                continue
            config = (env == "config")
            res = self.sm.step(a, kind, op, own=True, off0=(off0 if kind == "SendData" else None), config=config)
            for r in res:
                if r[0] == "panic":
                    problems.append(("sign-panics", name, a0, trace + ((sig, str(r[1])),)))
                    continue
                if r[0] == "nopath":
                    problems.append(("sign-table-incomplete", name, a0, trace + ((sig, str(r[1])),)))
                    continue
                b, reply = r
                rname, rval = self.reply_term(c, reply)
                tr2 = trace + ((("/".join(map(str, sig))), rname, repr(b)),)
                succ = c.successors(nk, rname, rval)
                if not succ:
                    problems.append(("controller-stuck", name, a0, tr2))
                    continue
                for e, envatoms in succ:
                    choices = self.classify_env(c, kindof.get(nk), e)
                    for choice in (choices if isinstance(choices, tuple) else (choices,)):
                        self.follow(c, env, kindof, nk, node, e, choice, b, tr2, work, terminals)
        return terminals, problems

    def follow(self, c, env, kindof, nk, node, e, choice, b, tr2, work, terminals):
                    if choice == "invalid":
                        return
                    if env == "config":
                        # exactly one item (iter::once of the 16-byte block: C09.O4 + C19.O1) of exactly one chunk
                        if kindof.get(nk) == "X1" and choice != "first":
                            return
                        if kindof.get(nk) == "X2" and choice != "done":
                            return
                    nxt_off0 = choice in ("first", "next-item")
                    if e.dst is not None:
                        work.append((e.dst, b, nxt_off0, tr2))
                    else:
                        terminals.append((c.outcome_sig(e, node), b, tr2))

    def reply_term(self, c, reply):
        if reply is None:
            return "none", [r for r in c.alphabet if r[0] == "none"][0][1]
        kind, sub, addr = reply
        who = "own" if addr == "own-address" else "foreign"
        nm = "%s(%s,%s)" % (kind, who, sub)
        for r in c.alphabet:
            if r[0] == nm:
                return nm, r[1]
        raise Unsupported("reply %s not in the abstract alphabet" % nm)


def short_trace(tr, n=8):
    return " ; ".join("%s -> %s" % (t[0], t[1]) for t in tr[-n:])


def run_c08(chk, prog):
    chk.notes.append("Control plane only (DESIGN.md 4 C08): the extracted controller automaton (A8) is run against the extracted sign table (A1) as a product over an abstract sign state "
                     "(13 states x pages/pending empty-or-not x counter zero-or-not x size unset/same/other x type none/same/other x flip style, plus three ghost relations: sign counter == "
                     "controller count, buffer == page in flight, stored pages == pages sent). From every sign state reachable under arbitrary traffic, configure must end Ok in ConfigReceived "
                     "with no pages, the requested type and clean counters; send_pages must then end Ok in PageLoaded/ShowingPages with the matching return value and the stored pages in sync; "
                     "show/load-next must move a manual sign and leave an automatic one. Bit-exactness of the data plane follows by composition (C09.O2, C13.O2, C07.O3; lemma L4) and is not re-derived.")
    # data plane, by composition (lemma L4): the three component rule sets are part of this property's verdict
    import p_ctrl, p_vsign, p_page
    n = chk.include("C08.data", p_ctrl.run_c09, prog, keep=lambda r: r.startswith("C09.O2") or r.startswith("C09.O4") or r.startswith("C09.O3"))
    n += chk.include("C08.data", lambda c, p: [p_vsign.reassembly_rules(c, p_vsign.SignTable(p, log_on=lo), "C13.O2") for lo in (False, True)], prog)
    n += chk.include("C08.data", p_page.run_c07, prog, keep=lambda r: r.startswith("C07.O3") or r.startswith("C07.O1"))
    chk.floor("C08.data", "data-plane obligations (chunking C09.O2-O4, reassembly C13.O2, page length C07.O1/O3)", n, 40)
    # the product below composes the controller with the sign's table directly: that the bus hands every message to the sign and
    # returns its reply unchanged is C14.O4, and that no handler panics under any traffic (the table keeps the success edge of
    # every bounds / overflow assertion) is C12
    import p_c12
    nb = chk.include("C08.bus", lambda c, p: p_vsign.bus_loop(c, p), prog)
    nt = chk.include("C08.total", p_c12.run_c12, prog)
    # the product takes for granted that the configuration is one 16-byte block from which the sign derives exactly the type's
    # dimensions (C19's tables and the sign's derivation): a leg of the composition as well
    import p_signtype
    ns = chk.include("C08.type", p_signtype.run_c19_tables, prog)
    chk.floor("C08.type", "sign-type block obligations (C19)", ns, 100)
    chk.floor("C08.bus", "bus delivery obligations (C14.O4)", nb, 6)
    chk.floor("C08.total", "panic-site obligations of the sign (C12)", nt, 8)
    # log macros evaluate their arguments only when the record is enabled: the product is explored at both extremes of the level
    for lo in (False, True):
        p_ctrl.LOG_ON = lo
        try:
            sm = _product(chk, prog, lo)
        finally:
            p_ctrl.LOG_ON = False
    chk.note_analysed("functions", ["flipdot::sign::Sign::%s" % n for n in p_ctrl.ENTRIES] + [sm.tab.fn["name"]])
    chk.assumptions += ["the pages sent have the requested sign type's size (property precondition); the controller's and the sign's address coincide",
                        "C09.O4 + C19.O1: the configuration is one item of one 16-byte chunk; C19.O3: the sign derives exactly dimensions() from it (both decided here, as C08.data / C08.type)",
                        "lemma L4 (DESIGN.md section 6) for the data plane"]


def _product(chk, prog, lo):
    sm = SignModel(prog, lo)
    prod = Product(prog, sm)
    where_s = loc(sm.tab.fn["span"])
    total_reach = 0
    n_runs = 0
    all_states = set()
    for flip in sm.tab.flips:
        reach, panics = reachable_sign_states(sm, flip)
        total_reach += len(reach)
        chk.ob("C08.reach", "sign (%s): fixpoint of the extracted table under arbitrary traffic has %d abstract states and meets no panicking row" % (flip, len(reach)), not panics, key="c08:reach-panic:%s" % flip,
               where=where_s, detail=str(panics[:1]))
        states = set(a.state for a in reach)
        all_states.update(states)
        chk.floor("C08.reach", "protocol states reachable (%s)" % flip, len(states), 9)
        # hygiene invariant: outside the transfer states the counter is 0 and nothing is buffered
        dirty_ok = ("ConfigInProgress", "PixelsInProgress", "PixelsFailed", "ReadyToReset")
        bad = [a for a in reach if a.state not in dirty_ok and (a.counter != "0" or a.pending != "empty")]
        chk.ob("C08.hygiene", "(%s) outside %s the chunk counter is 0 and no data is buffered" % (flip, list(dirty_ok)), not bad, key="c08:hygiene:%s" % flip, where=where_s, detail=str(bad[:2]))
        # ---- configure from every reachable state ----------------------------------------------
        post_cfg = {}
        for a0 in reach:
            terms, probs = prod.run("configure", a0, "config")
            n_runs += 1
            report(chk, "C08.configure", "configure", a0, terms, probs, prod,
                   lambda sig, b: sig == ("ok", "()") and b.state == "ConfigReceived" and b.pages == "empty" and b.type == "same" and b.dims == "same" and b.counter == "0" and b.pending == "empty",
                   "Ok with the sign in ConfigReceived, no pages, the requested type/size, counter 0, nothing buffered")
            for sig, b, tr in terms:
                if sig == ("ok", "()"):
                    post_cfg[b.core()] = b
        # ---- configure_if_needed -----------------------------------------------------------------
        ready = ("ConfigReceived", "ShowingPages", "PageLoaded", "PageShowInProgress", "PageShown", "PageLoadInProgress")
        for a0 in reach:
            if a0.state in ready and not (a0.type == "same" and a0.dims == "same"):
                continue   # by contract it trusts a sign that reports itself ready (property's quantifier)
            terms, probs = prod.run("configure_if_needed", a0, "config")
            n_runs += 1
            if a0.state in ready:
                want = lambda sig, b, a0=a0: sig == ("ok", "()") and b.type == "same" and b.dims == "same" and b.state in ready
                desc = "Ok leaving the already configured sign configured as the requested type"
            else:
                want = lambda sig, b: sig == ("ok", "()") and b.state == "ConfigReceived" and b.pages == "empty" and b.type == "same" and b.dims == "same" and b.counter == "0" and b.pending == "empty"
                desc = "Ok with the sign freshly configured as the requested type"
            report(chk, "C08.configure_if_needed", "configure_if_needed", a0, terms, probs, prod, want, desc)
        # ---- send_pages / show / load-next closure -------------------------------------------------
        chk.floor("C08.configure", "(%s) distinct sign states after configure" % flip, len(post_cfg), 1)
        frontier = list(post_cfg.values())
        seen = dict(post_cfg)
        sent_states = {}
        rounds = 0
        while frontier and rounds < 6:
            rounds += 1
            nxt = []
            for a0 in frontier:
                a1 = a0.copy(gcnt="?", gbuf="?", gpages="?")
                terms, probs = prod.run("send_pages", a1, "pages")
                n_runs += 1
                style = "Automatic" if flip == "Automatic" else "Manual"
                endst = "ShowingPages" if flip == "Automatic" else "PageLoaded"
                report(chk, "C08.send_pages", "send_pages", a0, terms, probs, prod,
                       lambda sig, b, style=style, endst=endst: sig == ("ok", style) and b.state == endst and b.gpages == "sync" and b.counter == "0" and b.pending == "empty" and b.type == "same",
                       "Ok(%s) with the sign in %s holding exactly the pages sent" % (style, endst))
                for sig, b, tr in terms:
                    if sig[0] == "ok":
                        sent_states[b.core()] = b
                        if b.core() not in seen:
                            seen[b.core()] = b
                            nxt.append(b)
            # show / load from the states after a send
            for a0 in list(sent_states.values()):
                for opn, tgt in (("show_loaded_page", "PageShown"), ("load_next_page", "PageLoaded")):
                    terms, probs = prod.run(opn, a0.copy(gcnt="?", gbuf="?"), "pages")
                    n_runs += 1
                    if flip == "Automatic":
                        want = lambda sig, b, a0=a0: sig == ("ok", "()") and b.state == "ShowingPages" and b.pages == a0.pages
                        desc = "Ok and a no-op on the automatic sign"
                    else:
                        want = lambda sig, b, tgt=tgt, a0=a0: sig == ("ok", "()") and b.state == tgt and b.pages == a0.pages and b.gpages == a0.gpages
                        desc = "Ok with the manual sign in %s, pages untouched" % tgt
                    report(chk, "C08." + opn, opn, a0, terms, probs, prod, want, desc)
                    for sig, b, tr in terms:
                        if sig[0] == "ok" and b.core() not in sent_states:
                            sent_states[b.core()] = b
                            if b.core() not in seen:
                                seen[b.core()] = b
                                nxt.append(b)
            frontier = nxt
        chk.floor("C08.send_pages", "(%s) sign states after send/show/load explored" % flip, len(sent_states), 1)
    chk.floor("C08.reach", "protocol states reachable over both flip styles", len(all_states), 13)
    chk.extra["reachable_abstract_sign_states"] = total_reach
    chk.extra["product_runs"] = n_runs
    chk.extra["states"] = total_reach
    chk.extra["transitions"] = n_runs
    chk.extra["traces_validated_against_impl"] = 0
    chk.extra["model_origin"] = "both automata are extracted from the implementation's MIR on every run; no hand-written model"
    chk.floor("C08", "controller operations composed with the sign", len(prod.ctl), 6)
    return sm


def report(chk, rule, opname, a0, terms, probs, prod, want, desc):
    where = loc(prod.ctl[opname].fn["span"])
    for p in probs:
        chk.ob(rule, "%s from %r: %s" % (opname, a0, p[0]), False, key="c08:%s:%s:%s" % (opname, p[0], a0.state), where=where, detail=short_trace(p[3]))
    if not terms and not probs:
        chk.ob(rule, "%s from %r terminates" % (opname, a0), False, key="c08:%s:no-terminal:%s" % (opname, a0.state), where=where)
        return
    bad = [(sig, b, tr) for sig, b, tr in terms if not want(sig, b)]
    ok = not bad
    chk.ob(rule, "%s from %r ends %s" % (opname, a0, desc), ok,
           key="c08:%s:%s:%s" % (opname, a0.state, "/".join(map(str, bad[0][0])) if bad else ""), where=where,
           detail=None if ok else "ends %s with the sign %r after: %s" % ("/".join(map(str, bad[0][0])), bad[0][1], short_trace(bad[0][2])))
    if ok and len(chk.samples) < 6 and terms:
        chk.sample({"operation": opname, "from": repr(a0), "ends": "/".join(map(str, terms[0][0])), "sign": repr(terms[0][1]), "conversation": short_trace(terms[0][2], 20)})
