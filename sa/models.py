"""Semantic models of the std / core / regex / log functions the workspace calls.

One entry per function (or family); each cites the documented behaviour it encodes.
Everything not listed here and not in the workspace is an opaque *effect*.
"""
import re
from mireval import (TRUE, FALSE, UNIT, Unsupported, Infeasible, mk_int, wrap, len_term, index_term,
                     term_type, adt_base, is_bool_term, fmt_term)

OPTION = "core::option::Option"
RESULT = "core::result::Result"
CFLOW = "core::ops::control_flow::ControlFlow"
COW = "alloc::borrow::Cow"


def some(ev, x):
    return ev.mk_adt(OPTION, "Some", (x,))


def none(ev):
    return ev.mk_adt(OPTION, "None")


def ok(ev, x):
    return ev.mk_adt(RESULT, "Ok", (x,))


def err(ev, x):
    return ev.mk_adt(RESULT, "Err", (x,))


def as_seq(v):
    if v[0] == "seq":
        return v
    return ("seq", (("splice", v),))


def slice_of(v):
    """The slice a Vec / Cow / array value derefs to."""
    if v[0] == "adt" and v[1] == COW:
        inner = v[4][0]
        if v[3] == "Borrowed":
            if inner[0] != "ref":
                return ("ref", ("val", ("proj", inner, ("deref",)), ()), False)
            return inner  # a reference
        return ("ref", ("val", inner, ()), False)
    return None


def struct_eq(ev, st, a, b, depth=0):
    """Structural equality of two values (derived PartialEq / std PartialEq on Option, slices, Cow, Vec, refs).
    Returns TRUE / FALSE / a boolean atom."""
    if depth > 20:
        raise Unsupported("eq too deep")
    while a[0] == "ref":
        a = ev.load(st, a[1])
    while b[0] == "ref":
        b = ev.load(st, b[1])
    hw = getattr(ev.models, "handwritten_eq", None)
    if hw:
        # `==` on a workspace type whose PartialEq is written by hand is that impl, not a field-by-field comparison: a
        # std / derived comparison that reaches such a value (Option<T>, a field of a derived impl, a slice element) runs it
        for v in (a, b):
            ty = v[1] if v[0] == "adt" else (term_type(v) or "")
            base = adt_base(ty.lstrip("&").replace("mut ", "").strip()) if ty else ""
            if base in hw:
                raise Unsupported("comparison of %s values inside a structural (std / derived) `==`: %s has a hand-written PartialEq impl (%s), which the structural model does not follow"
                                  % (base.split("::")[-1], base, hw[base]))
    if a == b:
        return TRUE
    if a[0] == "int" and b[0] == "int":
        return TRUE if a[1] == b[1] else FALSE
    if a[0] == "bytes" and b[0] == "bytes":
        return TRUE if a[1] == b[1] else FALSE
    if a[0] == "unit" and b[0] == "unit":
        return TRUE
    if a[0] == "adt" and b[0] == "adt":
        if adt_base(a[1]) != adt_base(b[1]):
            raise Unsupported("eq of different ADTs %s %s" % (a[1], b[1]))
        if a[2] != b[2]:
            return FALSE
        return conj([struct_eq(ev, st, x, y, depth + 1) for x, y in zip(a[4], b[4])])
    if a[0] == "tuple" and b[0] == "tuple":
        return conj([struct_eq(ev, st, x, y, depth + 1) for x, y in zip(a[1], b[1])])
    for (c, o) in ((a, b), (b, a)):
        # constant bytes against a sub-slice of known bounds: equal lengths, then element by element
        if c[0] in ("bytes", "array") and o[0] == "app" and o[1] == "subslice" and o[2][1][0] == "int" and o[2][2][0] == "int":
            base, lo, hi = o[2]
            if hi[1] - lo[1] != len(c[1]):
                return FALSE
            from mireval import index_term
            elems = [mk_int(x, "u8") if isinstance(x, int) else x for x in c[1]]
            return conj([struct_eq(ev, st, e, index_term(base, mk_int(lo[1] + k, "usize")), depth + 1) for k, e in enumerate(elems)])
    if b[0] == "adt" and a[0] != "adt":
        a, b = b, a
    if a[0] == "adt":
        # concrete-shaped a vs symbolic b: decompose along a's shape
        adt = ev.adt(a[1])
        if adt is None:
            return ("eq",) + tuple(sorted((a, b), key=repr))
        atoms = []
        if adt["kind"] == "enum":
            atoms.append(("deq", ("discr", b), ev.discr_of(a[1], a[2])))
            base = ev.project(st, b, ("downcast", a[2], a[3]))
        else:
            base = b
        vdef = [v for v in adt["variants"] if v["idx"] == a[2]][0]
        for i, x in enumerate(a[4]):
            fty = vdef["fields"][i]["ty"]["s"] if i < len(vdef["fields"]) else "?"
            # spelled through the evaluator's own projection, so that `x == Some(..)` and `match x { Some(..) }` talk about the same terms
            atoms.append(struct_eq(ev, st, x, ev.project(st, base, ("field", i, fty)), depth + 1))
        return conj(atoms)
    if a[0] == "int" or b[0] == "int":
        if b[0] != "int":
            a, b = b, a
        return ("app", "Eq", (a, b))
    x, y = sorted((a, b), key=repr)
    if is_scalar_leaf(x) and is_scalar_leaf(y):
        return ("app", "Eq", (x, y))      # same atom as the `==` operator on two integers
    return ("eq", x, y)


def is_scalar_leaf(t):
    from mireval import int_bits
    ty = term_type(t)
    return bool(ty) and int_bits(ty)[0] is not None


def conj(atoms):
    out = []
    for a in atoms:
        if a == TRUE:
            continue
        if a == FALSE:
            return FALSE
        if a[0] == "and":
            out.extend(a[1])
        else:
            out.append(a)
    if not out:
        return TRUE
    if len(out) == 1:
        return out[0]
    return ("and", tuple(out))


class Models:
    def __init__(self, prog):
        self.prog = prog
        self.table = []
        self.derived_eq = set()
        self.handwritten_eq = {}
        for f in prog.fns.values():
            imp = f.get("impl") or {}
            if imp.get("trait") == "core::cmp::PartialEq" and f.get("item") in ("eq", "ne"):
                if imp.get("automatically_derived"):
                    self.derived_eq.add(f["path"])
                elif imp.get("self_adt"):
                    self.handwritten_eq[imp["self_adt"]] = f["name"]
        self._register()

    def force_model(self, ci):
        """Workspace functions that are modelled instead of inlined."""
        r = ci.fnj.get("resolved") or ci.fnj
        if r["path"] in self.derived_eq:
            return True
        return False

    def reg(self, pat, fn, doc):
        self.table.append((re.compile(pat), fn, doc))

    def call(self, ci):
        for pat, fn, _ in self.table:
            if pat.search(ci.name):
                return fn(ci)
        # unresolved trait methods on generics: try the original name
        if ci.name != ci.orig_name:
            for pat, fn, _ in self.table:
                if pat.search(ci.orig_name):
                    return fn(ci)
        return None

    def docs(self):
        return [(p.pattern, d) for p, _, d in self.table]

    # ------------------------------------------------------------------------------
    def _register(self):
        R = self.reg
        R(r"as core::cmp::PartialEq(<.*>)?>::eq$|^core::cmp::PartialEq::eq$|impl core::cmp::PartialEq<.*> for .*>::eq$", m_eq,
          "PartialEq::eq on derived impls, Option, Cow, Vec, slices and references is structural equality (std docs: derive(PartialEq); impl PartialEq for Option/[T]/&A)")
        R(r"as core::cmp::PartialEq(<.*>)?>::ne$|^core::cmp::PartialEq::ne$|impl core::cmp::PartialEq<.*> for .*>::ne$", m_ne, "PartialEq::ne is !eq")
        R(r"as core::ops::try_trait::Try>::branch$", m_try_branch, "Try::branch for Result / Option: Ok(v)/Some(v) => Continue(v), Err(e) => Break(Err(e)), None => Break(None)")
        R(r"^core::bool::<impl bool>::(then|then_some)$", m_bool_then, "bool::then(f) / then_some(v): Some(f()) / Some(v) when true, None when false")
        R(r"impl core::ops::range::Range<Idx>>::contains$|^core::ops::range::Range::<Idx>::contains$", m_range_contains, "Range::contains(&x): start <= x && x < end")
        R(r"as core::ops::try_trait::FromResidual<.*>>::from_residual$", m_from_residual, "Result::from_residual(Err(e)) = Err(From::from(e))")
        R(r"^<alloc::borrow::Cow<'_, T> as core::convert::AsRef<T>>::as_ref$", m_cow_deref, "Cow::as_ref borrows the contained data unchanged (like deref)")
        R(r"^<alloc::borrow::Cow<'_, B> as core::ops::deref::Deref>::deref$", m_cow_deref, "Cow::deref borrows the contained data unchanged")
        R(r"^<alloc::vec::Vec<T, A> as core::ops::deref::Deref(Mut)?>::deref(_mut)?$|^alloc::vec::Vec::<T, A>::as_(mut_)?slice$", m_vec_deref, "Vec derefs to the slice of its elements")
        R(r"^alloc::borrow::Cow::<'_, B>::to_mut$", m_cow_to_mut, "Cow::to_mut: clones borrowed data into an owned value once, returns &mut to the owned data (same contents)")
        R(r"^core::slice::<impl \[T\]>::len$|^alloc::vec::Vec::<T, A>::len$", m_len, "len() is the number of elements")
        R(r"^alloc::vec::Vec::<T, A>::is_empty$|^core::slice::<impl \[T\]>::is_empty$", m_is_empty, "is_empty() == (len() == 0)")
        R(r"impl core::ops::index::Index<I> for \[T(; N)?\]>::index$|^<alloc::vec::Vec<T, A> as core::ops::index::Index<I>>::index$", m_index, "Index: element / sub-slice reference (panics out of range: A4)")
        R(r"impl core::ops::index::IndexMut<I> for \[T(; N)?\]>::index_mut$|^<alloc::vec::Vec<T, A> as core::ops::index::IndexMut<I>>::index_mut$", m_index, "IndexMut: as Index, mutable")
        R(r"^<T as core::convert::Into<U>>::into$|^core::convert::Into::into$", m_into, "Into::into = From::from; &[u8]/&Vec<u8> -> Cow::Borrowed, Vec<u8> -> Cow::Owned, T -> T identity")
        R(r"^core::option::Option::<T>::(unwrap|expect)$|^core::result::Result::<T, E>::(unwrap|expect)$", m_unwrap, "unwrap/expect: the contained Some/Ok value (panic otherwise: A4)")
        R(r"^core::option::Option::<T>::(is_some|is_none)$|^core::result::Result::<T, E>::(is_ok|is_err)$", m_is_variant, "is_some/is_none/is_ok/is_err test the variant")
        R(r"^core::option::Option::<T>::(unwrap_or|unwrap_or_default)$|^core::result::Result::<T, E>::(unwrap_or|unwrap_or_default)$", m_unwrap_or, "unwrap_or(d)/unwrap_or_default: the contained value, else d / Default::default()")
        R(r"^core::option::Option::<&T>::(copied|cloned)$|^core::option::Option::<&mut T>::(copied|cloned)$", m_copied, "Option<&T>::copied/cloned: Some(&v) => Some(v)")
        R(r"^core::option::Option::<T>::(map_or|map|and_then|is_some_and|is_none_or|map_or_else)$", m_opt_comb, "Option combinators: apply the closure to the contained value (Some) or take the default (None)")
        R(r"^core::result::Result::<T, E>::(map|map_err)$", m_res_comb, "Result::map / map_err apply the closure to the Ok / Err payload")
        R(r"^core::option::Option::<T>::ok_or$", lambda ci: (ok(ci.ev, ci.args[0][4][0]) if ci.args[0][3] == "Some" else err(ci.ev, ci.args[1])) if ci.args[0][0] == "adt" else None, "Option::ok_or")
        R(r"^alloc::slice::<impl \[T\]>::to_vec$", lambda ci: ("app", "to_vec", (ci.deref(ci.args[0]),)), "slice::to_vec copies the slice into a Vec")
        R(r"^core::slice::<impl \[T\]>::first$", m_first, "slice::first: Some(&s[0]) unless the slice is empty")
        R(r"^core::slice::<impl \[T\]>::get$", m_slice_get, "slice::get(i): Some(&s[i]) iff i < len")
        R(r"^core::result::Result::<T, E>::ok$", m_result_ok, "Result::ok: Ok(v) => Some(v), Err(_) => None")
        R(r"^core::option::Option::<T>::ok_or_else$", m_ok_or_else, "Option::ok_or_else: Some(v) => Ok(v), None => Err(f())")
        R(r"^alloc::vec::Vec::<T>::new$|^alloc::vec::Vec::<T>::with_capacity$", lambda ci: ("seq", ()), "Vec::new / with_capacity: empty vector")
        R(r"^alloc::vec::Vec::<T, A>::push$", m_vec_push, "Vec::push appends one element")
        R(r"^alloc::vec::Vec::<T, A>::extend_from_slice$", m_vec_extend, "Vec::extend_from_slice appends all elements of the slice in order")
        R(r"^alloc::vec::Vec::<T, A>::resize$", m_vec_resize, "Vec::resize(n, v): extends with v up to length n (or truncates)")
        R(r"^alloc::vec::Vec::<T, A>::clear$", m_vec_clear, "Vec::clear removes all elements")
        R(r"^alloc::vec::Vec::<T, A>::capacity$", lambda ci: ("app", "capacity", (ci.deref(ci.args[0]),)), "Vec::capacity (uninterpreted)")
        R(r"^core::mem::take$", m_mem_take, "mem::take replaces with Default::default() and returns the old value")
        R(r"^core::slice::<impl \[T\]>::iter$", lambda ci: ("iter", "slice", ci.deref(ci.args[0])), "slice::iter yields the elements in order")
        R(r"^core::slice::<impl \[T\]>::chunks$", lambda ci: ("iter", "chunks", ci.deref(ci.args[0]), ci.args[1]), "slice::chunks(n): consecutive non-overlapping chunks of n elements, last one shorter")
        R(r"^core::iter::traits::iterator::Iterator::(copied|cloned)$", lambda ci: ("iter", "copied", ci.args[0]), "Iterator::copied / cloned: the same items by value")
        R(r"^core::slice::<impl \[T\]>::chunks_exact$", lambda ci: ("iter", "chunks_exact", ci.deref(ci.args[0]), ci.args[1]), "slice::chunks_exact(n): the chunks of exactly n elements (a shorter tail is left out)")
        R(r"^<T as core::convert::TryInto<U>>::try_into$|^core::array::<impl core::convert::TryFrom<&'a \[T\]> for &'a \[T; N\]>::try_from$", m_try_into, "TryInto/TryFrom: &[T] -> &[T; N] is Ok(the same elements) iff len == N; unsigned ints as TryFrom")
        R(r"impl core::convert::TryFrom<usize> for u(8|16|32)>::try_from$|impl core::convert::TryFrom<u(16|32|64)> for u(8|16|32)>::try_from$", m_try_from, "TryFrom between unsigned ints: Ok(value) iff it fits the target type")
        R(r"^core::iter::traits::iterator::Iterator::enumerate$", lambda ci: ("iter", "enumerate", ci.args[0]), "Iterator::enumerate pairs items with 0,1,2,…")
        R(r"^core::iter::traits::iterator::Iterator::step_by$", m_step_by, "Iterator::step_by(n) on a RangeFrom with a constant start: start, start+n, start+2n, … (kept symbolic otherwise)")
        R(r"^core::iter::traits::iterator::Iterator::zip$", lambda ci: ("iter", "zip", ci.args[0], m_into_iter_value(ci, ci.args[1])), "Iterator::zip pairs the k-th items and ends with the shorter side")
        R(r"^core::iter::traits::iterator::Iterator::flat_map$", lambda ci: ("iter", "flat_map", ci.args[0], ci.args[1]), "Iterator::flat_map(f): the items of f(x) for each item x, in order")
        R(r"^core::iter::traits::iterator::Iterator::map$", lambda ci: ("iter", "map", ci.args[0], ci.args[1]), "Iterator::map applies f to each item")
        R(r"^core::iter::sources::once::once$", lambda ci: ("iter", "once", ci.args[0]), "iter::once yields exactly one item")
        R(r"^core::iter::traits::iterator::Iterator::collect$", m_collect, "Iterator::collect::<Vec<_>> gathers all items in order")
        R(r"^core::iter::sources::repeat_n::repeat_n$", lambda ci: ("iter", "repeat_n", ci.args[0], ci.args[1]), "iter::repeat_n(x, n): n copies of x")
        R(r"^core::iter::traits::iterator::Iterator::chain$", lambda ci: ("iter", "chain", ci.args[0], m_into_iter_value(ci, ci.args[1])), "Iterator::chain: all items of the first, then all items of the second")
        R(r"^core::iter::traits::iterator::Iterator::sum$", m_sum, "Iterator::sum adds all items in the result type (overflow panics in debug builds: A4)")
        R(r"as core::iter::traits::iterator::Iterator>::fold$|^core::iter::traits::iterator::Iterator::fold$", m_fold, "Iterator::fold(init, f): executed item by item over a small table, otherwise kept as a symbolic fold")
        R(r"^core::slice::<impl \[T\]>::iter_mut$", lambda ci: ("iter", "slice_mut", ci.deref(ci.args[0])), "slice::iter_mut yields &mut to the elements in order")
        R(r"^core::iter::traits::iterator::Iterator::for_each$|as core::iter::traits::iterator::Iterator>::for_each$", m_for_each, "Iterator::for_each calls the closure on every item")
        R(r"as core::iter::traits::collect::IntoIterator>::into_iter$|^core::iter::traits::collect::IntoIterator::into_iter$", m_into_iter, "IntoIterator for iterators is identity; for &Vec / &mut Vec it is slice iteration")
        R(r"as core::iter::traits::iterator::Iterator>::find_map$|^core::iter::traits::iterator::Iterator::find_map$", m_find_map, "Iterator::find_map(f): f on each item in order, stops at and returns the first Some; None when exhausted")
        R(r"as core::iter::traits::iterator::Iterator>::next$|^core::iter::traits::iterator::Iterator::next$", m_iter_next, "Iterator::next: Some(item) or None")
        R(r"^core::clone::Clone::clone$", lambda ci: ci.deref(ci.args[0]), "Clone::clone yields an equal value")
        R(r"^core::num::<impl u\d+>::wrapping_(add|sub|mul)$", m_wrapping, "uN::wrapping_* : arithmetic mod 2^N")
        R(r"^core::num::<impl u\d+>::wrapping_neg$", lambda ci: mk_int(wrap(-ci.args[0][1], ci.args[0][2]), ci.args[0][2]) if ci.args[0][0] == "int" else ("app", "Neg", (ci.args[0],)), "wrapping_neg")
        R(r"^core::num::<impl u(\d+|size)>::(div_ceil|next_multiple_of|saturating_add|saturating_sub|min|max|pow|checked_add|checked_mul|is_multiple_of)$", m_int_helper, "integer helper (uninterpreted, canonicalised by A7); next_multiple_of / pow can overflow and div_ceil / next_multiple_of divide: the panic obligations are emitted for A4")
        R(r"^core::num::<impl u(16|32|64)>::to_(be|le)_bytes$", m_to_bytes, "uN::to_be_bytes / to_le_bytes: the value's bytes, most / least significant first")
        R(r"^core::num::<impl u(16|32|64)>::from_(be|le)_bytes$", lambda ci: None, "from_*_bytes (unmodelled)")
        R(r"^core::convert::num::<impl core::convert::From<u\d+> for [ui](\d+|size)>::from$", m_widen, "lossless integer widening")
        R(r"^core::convert::num::<impl core::convert::From<bool> for [ui](\d+|size)>::from$", m_widen, "uN::from(bool): 0 or 1")
        R(r"^<&?u8 as core::ops::bit::(Shr|Shl|BitAnd|BitOr|BitXor)<.*>>::\w+$", m_ref_binop, "operators on &u8 forward to the u8 operator")
        R(r"^<&?u8 as core::ops::arith::(Div|Rem)<.*>>::\w+$", m_ref_divrem, "`/` and `%` on &u8 forward to the u8 operator (a constant non-zero divisor: no panic)")
        R(r"^core::time::Duration::from_millis$", lambda ci: dur(ci.args[0], 1), "Duration::from_millis")
        R(r"^core::time::Duration::from_secs$", lambda ci: dur(ci.args[0], 1000), "Duration::from_secs")
        R(r"^core::time::Duration::from_micros$", lambda ci: dur(ci.args[0], 0.001), "Duration::from_micros")
        R(r"^core::time::Duration::from_nanos$", lambda ci: dur(ci.args[0], 0.000001), "Duration::from_nanos")
        R(r"^core::time::Duration::new$", lambda ci: ("app", "duration_ms", (mk_int(ci.args[0][1] * 1000 + ci.args[1][1] // 1000000, "u64"),)) if ci.args[0][0] == "int" and ci.args[1][0] == "int" else ("app", "duration_new", tuple(ci.args)), "Duration::new(secs, nanos)")
        R(r"^core::time::Duration::is_zero$", m_dur_is_zero, "Duration::is_zero")
        R(r"^core::option::Option::<core::result::Result<T, E>>::transpose$", m_transpose, "Option<Result<T,E>>::transpose: None => Ok(None), Some(Ok(x)) => Ok(Some(x)), Some(Err(e)) => Err(e)")
        R(r"^core::result::Result::<T, E>::and$", m_result_and, "Result::and(res): Ok(_) => res, Err(e) => Err(e); res is an argument, so it was evaluated before the call")
        R(r"^core::result::Result::<T, E>::and_then$", m_and_then, "Result::and_then: Ok(v) => f(v), Err(e) => Err(e)")
        R(r"^core::option::Option::<T>::unwrap_or_else$", m_unwrap_or_else, "Option::unwrap_or_else: Some(x) => x, None => f()")
        R(r"^core::slice::<impl \[T\]>::split_first$", m_split_first, "slice::split_first: None for an empty slice, else Some((&s[0], &s[1..]))")
        R(r"as core::iter::traits::iterator::Iterator>::(find|position|any|all)$|^core::iter::traits::iterator::Iterator::(find|position|any|all)$", m_search, "Iterator::find/position/any/all over a small constant table: the predicate on each element in order")
        R(r"^core::slice::<impl \[T\]>::contains$", m_contains, "slice::contains over a small constant table: x == element, in order")
        R(r"^core::mem::replace$", m_mem_replace, "mem::replace stores the new value and returns the old one")
        R(r"^core::slice::<impl \[T\]>::split_at_mut$", m_split_at_mut, "split_at_mut(mid) of a view of a vector built here: the views [0, mid) and [mid, len) (panics if mid > len)")
        R(r"^core::slice::<impl \[T\]>::copy_from_slice$", m_copy_from_slice, "copy_from_slice(src) into a view of a vector built here, both of the same constant length: those elements replace the range")
        R(r"^alloc::vec::from_elem$", lambda ci: ("seq", (("fill_to", ci.args[1], ci.args[0]),)), "vec![x; n]: n copies of x")
        R(r"^<alloc::vec::Vec<T, A> as core::iter::traits::collect::Extend<&'a T>>::extend$|^<alloc::vec::Vec<T, A> as core::iter::traits::collect::Extend<T>>::extend$", m_vec_extend_iter, "Vec::extend with the items of a slice iterator: extend_from_slice")
        R(r"as core::iter::traits::iterator::Iterator>::(try_for_each|try_fold)$|^core::iter::traits::iterator::Iterator::(try_for_each|try_fold)$", m_try_iter, "Iterator::try_fold / try_for_each: the closure on each item in order, stopping at the first Err / None / Break, which is returned")
        R(r"^core::result::Result::<T, E>::inspect_err$", m_inspect_err, "Result::inspect_err(f): f(&error) on Err, then the value itself unchanged")
        R(r"^core::result::Result::<T, E>::inspect$|^core::option::Option::<T>::inspect$", m_inspect, "Result/Option::inspect(f): f(&value) on Ok / Some, then the value itself unchanged")
        R(r"^core::option::Option::<T>::filter$", m_opt_filter, "Option::filter(p): Some(x) if p(&x) else None")
        R(r"^core::option::Option::<T>::as_ref$", m_opt_as_ref, "Option::as_ref: Some(&x) for Some(x), None for None")
        R(r"^core::ops::range::RangeInclusive::<Idx>::new$", lambda ci: ("adt", "core::ops::range::RangeInclusive", 0, "RangeInclusive", (ci.args[0], ci.args[1], FALSE)), "RangeInclusive::new(a, b) is a..=b")
        R(r"^core::hint::must_use$", lambda ci: ci.args[0], "hint::must_use is the identity")
        R(r"^log::max_level$", lambda ci: ("loglevel",), "log::max_level(): the global maximum level (analysed at both extremes)")
        R(r"^core::cmp::PartialOrd::le$", m_le, "PartialOrd::le; Level <= max_level decided by the engine's log setting")
        R(r"^log::__private_api::(log|loc|enabled)$", m_benign, "log back end: no effect on program state")
        R(r"^core::fmt::rt::Argument::<'_>::new_\w+$|^core::fmt::Arguments::<'a>::(new|from_str|new_const|new_v1)\w*$|^alloc::fmt::format$|^<T as alloc::string::ToString>::to_string$|^core::str::<impl str>::trim$|^alloc::string::String::from_utf8_lossy$", m_benign, "formatting machinery: pure, reads its arguments by shared reference")
        R(r"^<alloc::rc::Rc<T, A> as core::clone::Clone>::clone$", lambda ci: ci.deref(ci.args[0]), "Rc::clone aliases the same allocation")
        R(r"^<alloc::rc::Rc<T, A> as core::ops::deref::Deref>::deref$", lambda ci: ("ref", ("val", ("app", "rc_inner", (ci.deref(ci.args[0]),)), ()), False), "Rc::deref")
        R(r"^core::cell::RefCell::<T>::borrow_mut$", lambda ci: ("app", "borrow_mut", (ci.deref(ci.args[0]),)), "RefCell::borrow_mut (panics if already borrowed: A4)")
        R(r"^<core::cell::RefMut<'_, T> as core::ops::deref::Deref(Mut)?>::deref(_mut)?$", lambda ci: ("ref", ("val", ("app", "refmut_inner", (ci.deref(ci.args[0]),)), ()), True), "RefMut::deref_mut")
        R(r"^std::sync::lazy_lock::LazyLock::<T, F>::new$|^core::cell::lazy::LazyCell::<T, F>::new$", lambda ci: ("app", "lazylock", (ci.args[0],)), "LazyLock::new(f): the value f() produces, computed once on first use")
        R(r"^<std::sync::lazy_lock::LazyLock<T, F> as core::ops::deref::Deref>::deref$|^std::sync::lazy_lock::LazyLock::<T, F>::force$", m_lazylock_deref, "LazyLock deref / force: the value produced once by the initialiser")
        R(r"^lazy_static::lazy::Lazy::<T>::get$", lambda ci: ("ref", ("val", ("app", "lazy", (ci.args[1],)), ()), False), "lazy_static: the value produced once by the initialiser")
        R(r"^regex::regex::bytes::Regex::new$", lambda ci: ok(ci.ev, ("app", "regex", (ci.args[0],))), "Regex::new (literal validated by A6)")
        R(r"^regex::regex::bytes::Regex::captures$", lambda ci: ("app", "captures", (ci.deref(ci.args[0]), ci.deref(ci.args[1]))), "Regex::captures: Some(caps) iff the regex matches")
        R(r"^regex::regex::bytes::Captures::<'h>::name$", lambda ci: ("app", "group", (deref_all(ci, ci.args[0]), deref_all(ci, ci.args[1]))), "Captures::name: the named group's match, if it participated")
        R(r"^<regex::regex::bytes::Captures<'h> as core::ops::index::Index<&'n str>>::index$", m_captures_index, "Captures[name]: name(..).unwrap().as_bytes() (panics when the group did not participate)")
        R(r"^regex::regex::bytes::Match::<'h>::as_bytes$", lambda ci: ("ref", ("val", ("app", "match_bytes", (ci.deref(ci.args[0]) if ci.args[0][0] == "ref" else ci.args[0],)), ()), False), "Match::as_bytes: the matched bytes")
        R(r"^core::str::converts::from_utf8$", lambda ci: ("app", "from_utf8", (ci.deref(ci.args[0]),)), "str::from_utf8")
        R(r"^num_traits::Num::from_str_radix$", lambda ci: ("app", "from_str_radix:" + ci.orig_targs()[0], (ci.deref(ci.args[0]) if ci.args[0][0] == "ref" else ci.args[0], ci.args[1])), "Num::from_str_radix(s, radix) for primitive ints = <int>::from_str_radix")
        R(r"^core::slice::<impl \[T\]>::fill$", m_fill, "slice::fill sets every element of the slice to the value")
        R(r"^core::panicking::\w+$|^std::rt::begin_panic\w*$", lambda ci: ("panic!", ci.name), "panic entry points diverge")
        R(r"^core::str::<impl str>::repeat$|^alloc::str::<impl str>::repeat$", m_benign, "str::repeat (pure)")


def deref_all(ci, v):
    """the value behind any number of concrete references (`&&str` -> str)"""
    while v[0] == "ref":
        v = ci.ev.load(ci.st, v[1])
    if v[0] == "proj" and v[2] == ("deref",) and v[1][0] == "ref":
        return deref_all(ci, v[1])
    return v


def dur(x, ms_per_unit):
    if x[0] == "int":
        v = x[1] * ms_per_unit
        if v == int(v):
            return ("app", "duration_ms", (mk_int(int(v), "u64"),))
        return ("app", "duration_us", (mk_int(int(v * 1000), "u64"),))
    return ("app", "duration_from", (x, mk_int(int(ms_per_unit * 1000000), "u64")))


def m_benign(ci):
    return ("app", "benign:" + ci.name.split("::")[-1], tuple(a for a in ci.args if a[0] != "ref"))


def m_eq(ci):
    return struct_eq(ci.ev, ci.st, ci.args[0], ci.args[1])


def m_ne(ci):
    r = struct_eq(ci.ev, ci.st, ci.args[0], ci.args[1])
    if r == TRUE:
        return FALSE
    if r == FALSE:
        return TRUE
    return ("app", "Not", (r,))


def m_le(ci):
    a = ci.deref(ci.args[0])
    b = ci.deref(ci.args[1])
    if b == ("loglevel",) or a == ("loglevel",):
        return TRUE if ci.ev.log_on else FALSE
    if a[0] == "int" and b[0] == "int":
        return TRUE if a[1] <= b[1] else FALSE
    if a[0] == "adt" and b[0] == "adt" and not a[4] and not b[4] and a[1].startswith("log::") and b[1].startswith("log::"):
        # log: impl PartialOrd<LevelFilter> for Level compares the discriminants as usize
        return TRUE if ci.ev.discr_of(a[1], a[2]) <= ci.ev.discr_of(b[1], b[2]) else FALSE
    return ("app", "Le", (a, b))


def m_try_branch(ci):
    ev = ci.ev
    x = ci.args[0]
    is_opt = "option::Option" in ci.name
    if x[0] == "adt":
        if x[3] in ("Ok", "Some"):
            return ev.mk_adt(CFLOW, "Continue", (x[4][0],))
        if x[3] == "None":
            return ev.mk_adt(CFLOW, "Break", (none(ev),))
        return ev.mk_adt(CFLOW, "Break", (err(ev, x[4][0]),))
    if is_opt:
        d0 = ("discr", x)
        return ("fork", [([(d0, 1)], ev.mk_adt(CFLOW, "Continue", (("unwrap", x),))), ([(d0, 0)], ev.mk_adt(CFLOW, "Break", (none(ev),)))])
    d = ("discr", x)
    dt = ci.dest_ty()
    okty = dt["args"][1]["s"] if dt.get("k") == "adt" and len(dt.get("args", [])) == 2 else "?"
    okv = ("unwrap", x)
    erv = ("proj", ("proj", x, ("downcast", 1, "Err")), ("field", 0, "?"))
    return ("fork", [
        ([(d, 0)], ev.mk_adt(CFLOW, "Continue", (okv,))),
        ([(d, 1)], ev.mk_adt(CFLOW, "Break", (err(ev, erv),))),
    ])


def m_result_and(ci):
    ev = ci.ev
    x, y = ci.args
    if x[0] == "adt":
        return y if x[3] == "Ok" else err(ev, x[4][0])
    d = ("discr", x)
    erv = ("proj", ("proj", x, ("downcast", 1, "Err")), ("field", 0, "?"))
    return ("fork", [([(d, 0)], y), ([(d, 1)], err(ev, erv))])


def m_from_residual(ci):
    ev = ci.ev
    x = ci.args[0]
    if "option::Option" in ci.name:
        return none(ev)      # impl FromResidual<Option<Infallible>> for Option<T>: None
    targs = ci.targs()
    e = x[4][0] if x[0] == "adt" else ("proj", ("proj", x, ("downcast", 1, "Err")), ("field", 0, "?"))
    # impl<T, E, F: From<E>> FromResidual<Result<Infallible, E>> for Result<T, F>: generic args are [T, E, F]
    if len(targs) >= 3 and strip(targs[1]) != strip(targs[2]):
        src_ty, dst_ty = targs[1], targs[2]
        for f in ci.ev.prog.fns.values():
            imp = f.get("impl") or {}
            if imp.get("trait") == "core::convert::From" and f.get("item") == "from" and strip(imp.get("self_ty", "")) == strip(dst_ty) and [strip(t) for t in imp.get("trait_args", [])] == [strip(src_ty)]:
                # evaluate the workspace conversion eagerly through a sub-evaluator (loop-free, single path)
                from mireval import Evaluator
                why = ev.static_effects(f["path"])
                if why:
                    raise Unsupported("the error conversion %s run by `?` has effects (%s)" % (f["name"], why))
                sub = Evaluator(ev.prog, ev.models, ev.log_on, {}, ev.no_inline)
                sub.fnrefs = ev.fnrefs
                paths = [p for p in sub.run_body(f, f["body"], [e]) if p.kind == "return"]
                if len(paths) == 1:
                    return err(ev, sub.detach(paths[0].state, paths[0].value))
        e = ("app", "from:" + strip(dst_ty), (e,))
    return err(ev, e)


def strip(s):
    """type string modulo lifetimes, spacing and the parenthesisation of dyn types"""
    s = re.sub(r"\s*\+\s*'[a-z_]+\b", "", s)
    s = re.sub(r"'[a-z_]+\b,?\s*", "", s)
    s = s.replace("(", "").replace(")", "").replace("<>", "")
    return s.replace(" ", "")


def m_cow_deref(ci):
    c = ci.deref(ci.args[0])
    s = slice_of(c)
    if s is not None:
        return s
    return ("ref", ("val", ("app", "cow_slice", (c,)), ()), False)


def m_vec_deref(ci):
    a = ci.args[0]
    if a[0] == "ref":
        return ("ref", a[1], a[2])
    return ("ref", ("val", ("proj", a, ("deref",)), ()), False)


def m_cow_to_mut(ci):
    a = ci.args[0]
    c = ci.deref(a)
    # &mut to the (owned copy of the) same contents.  Writes through it are recorded as
    # 'store' effects against the slice term.
    if c[0] == "adt" and c[1] == COW and c[3] == "Owned" and a[0] == "ref":
        tgt = a[1]
        return ("ref", tgt[:-1] + (tgt[-1] + (("downcast", c[2], "Owned"), ("field", 0, "?")),), True)
    return ("ref", ("val", ("app", "cow_owned", (c,)), ()), True)


def m_len(ci):
    v = ci.deref(ci.args[0])
    if v[0] == "app" and v[1] == "cow_slice":
        pass
    return len_term(v)


def m_is_empty(ci):
    v = ci.deref(ci.args[0])
    n = len_term(v)
    if n[0] == "int":
        return TRUE if n[1] == 0 else FALSE
    if v[0] == "seq" and any(i[0] == "elem" for i in v[1]):
        return FALSE
    return ("app", "Eq", (n, mk_int(0, "usize")))


def m_index(ci):
    a = ci.args[0]
    i = ci.args[1]
    if i[0] in ("int", "sym", "proj", "app", "item", "unwrap"):
        ci.st.emit(("index_elem", ci.deref(a), i, ci.w))
        if a[0] == "ref":
            tgt = a[1]
            return ("ref", tgt[:-1] + (tgt[-1] + (("index", i),),), a[2])
        return ("ref", ("val", ("proj", ("proj", a, ("deref",)), ("index", i)), ()), False)
    if i[0] == "adt":
        nm = i[1].split("::")[-1]
        base = ci.deref(a)
        if nm == "RangeFull":
            return a
        lo = hi = None
        if nm == "Range":
            lo, hi = i[4][0], i[4][1]
        elif nm == "RangeFrom":
            lo = i[4][0]
        elif nm == "RangeTo":
            hi = i[4][0]
        elif nm == "RangeToInclusive":
            hi = mk_int(i[4][0][1] + 1, "usize") if i[4][0][0] == "int" else ("app", "Add", (i[4][0], mk_int(1, "usize")))
        elif nm == "RangeInclusive" and len(i[4]) >= 2:
            lo, hi = i[4][0], (mk_int(i[4][1][1] + 1, "usize") if i[4][1][0] == "int" else ("app", "Add", (i[4][1], mk_int(1, "usize"))))
        else:
            raise Unsupported("index by %s" % nm)
        lo = lo or mk_int(0, "usize")
        ci.st.emit(("index_range", base, lo, hi, ci.w))
        if "index_mut" in ci.name and a[0] == "ref" and a[2] and a[1][0] in ("loc", "heap") and ci.ev.view_of(ci.st, a[1]) is not None:
            # `&mut v[lo..hi]` of a vector built in this function: kept as a place, so that fill / copy_from_slice through it
            # rewrite the vector (mireval.view_of / write_overlay)
            return ("ref", a[1][:-1] + (a[1][-1] + (("rsub", lo, hi),),), True)
        if base[0] in ("bytes", "array") and lo[0] == "int" and (hi is None or hi[0] == "int"):
            h = hi[1] if hi else len(base[1])
            if lo[1] <= h <= len(base[1]):
                return ("ref", ("val", (base[0], base[1][lo[1]:h]), ()), False)
            return ("panic!", "slice index out of range")
        return ("ref", ("val", ("app", "subslice", (base, lo, hi if hi is not None else len_term(base))), ()), a[2] if a[0] == "ref" else False)
    raise Unsupported("index operand %r" % (i[0],))


def m_into(ci):
    ev = ci.ev
    x = ci.args[0]
    ta = ci.orig_targs()
    src = strip(ta[0]) if len(ta) >= 1 else "?"
    dst = strip(ta[1]) if len(ta) >= 2 else "?"
    if src == dst and src != "?":
        return x
    dty = strip(ci.dest["ty"])
    if dty.startswith("alloc::borrow::Cow<"):
        # decided by the value's shape (generic callers are inlined unsubstituted)
        vt = term_type(x) or ""
        if x[0] == "ref" or vt.startswith("&"):
            return ev.mk_adt(COW, "Borrowed", (x,))     # From<&[T]> / From<&Vec<T>> for Cow: Borrowed
        if x[0] == "seq" or vt.startswith("alloc::vec::Vec<"):
            return ev.mk_adt(COW, "Owned", (x,))        # From<Vec<T>> for Cow: Owned
        if x[0] == "adt" and x[1] == COW:
            return x
        return ("app", "into_cow", (x,))
    if dty.startswith("alloc::vec::Vec<") and (x[0] == "ref" or src.startswith("&")):
        return ("app", "to_vec", (ci.deref(x),))        # From<&[T]> for Vec<T>: copies the slice
    return ("app", "into:" + dty, (x,))


def m_captures_index(ci):
    g = ("app", "group", (deref_all(ci, ci.args[0]), deref_all(ci, ci.args[1])))
    ci.st.emit(("unwrap", g, ci.w))
    return ("ref", ("val", ("app", "match_bytes", (("unwrap", g),)), ()), False)


def m_unwrap(ci):
    x = ci.args[0]
    if x[0] == "adt":
        if x[3] in ("Some", "Ok"):
            return x[4][0]
        return ("panic!", "unwrap on " + x[3])
    ci.st.emit(("unwrap", x, ci.w))
    return ("unwrap", x)


def m_is_variant(ci):
    which = ci.name.split("::")[-1]
    x = ci.deref(ci.args[0]) if ci.args[0][0] == "ref" else ci.args[0]
    want = {"is_some": "Some", "is_none": "None", "is_ok": "Ok", "is_err": "Err"}[which]
    if x[0] == "adt":
        return TRUE if x[3] == want else FALSE
    idx = {"None": 0, "Some": 1, "Ok": 0, "Err": 1}[want]
    return ("deq", ("discr", x), idx)


def default_of(ty):
    from mireval import int_bits
    if int_bits(ty)[0] is not None:
        return mk_int(0, ty)
    return None


def m_unwrap_or(ci):
    x = ci.args[0]
    dflt = ci.args[1] if len(ci.args) > 1 else default_of(ci.dest["ty"])
    if dflt is None:
        return None
    if x[0] == "adt":
        return x[4][0] if x[3] in ("Some", "Ok") else dflt
    d = ("discr", x)
    some_idx = 1 if "option" in ci.name else 0
    return ("fork", [([(d, some_idx)], ("unwrap", x)), ([(d, 1 - some_idx)], dflt)])


def m_opt_comb(ci):
    which = ci.name.split("::")[-1]
    x = ci.args[0]
    ev = ci.ev

    def on_some(v):
        f = ci.args[2] if which in ("map_or", "map_or_else") else ci.args[1]
        return apply_closure(ci, f, [v], multi=(lambda r: some(ev, r)) if which == "map" else (lambda r: r))

    def on_none():
        if which == "map_or":
            return ci.args[1]
        if which == "map_or_else":
            return apply_closure(ci, ci.args[1], [])
        if which in ("map", "and_then"):
            return none(ev)
        if which == "is_some_and":
            return FALSE
        if which == "is_none_or":
            return TRUE
        return None
    if x[0] == "adt":
        return on_some(x[4][0]) if x[3] == "Some" else on_none()
    d = ("discr", x)

    def lazy_some(ci2):
        f = ci.args[2] if which in ("map_or", "map_or_else") else ci.args[1]
        return apply_closure(ci2, f, [("unwrap", x)], multi=(lambda r: some(ci2.ev, r)) if which == "map" else (lambda r: r))

    def lazy_none(ci2):
        if which == "map_or_else":
            return apply_closure(ci2, ci.args[1], [])
        return on_none()
    return ("fork", [([(d, 1)], lazy_some), ([(d, 0)], lazy_none)])


def m_try_into(ci):
    ta = ci.targs()
    dst = ta[-1] if ci.name.endswith("try_into") else None
    if dst is None:
        m0 = re.search(r"Result<(&\[[^;\]]+; \d+\])", ci.dest["ty"])
        dst = m0.group(1) if m0 else ""
    m = re.match(r"^&(?:'\w+ )?\[(.+); (\d+)\]$", dst)
    x = ci.args[0]
    if m and x[0] == "ref":
        n = int(m.group(2))
        sl = ci.ev.load(ci.st, x[1])
        ln = len_term(sl)
        c = ("app", "Eq", (ln, mk_int(n, "usize")))
        kn = (1 if ln[1] == n else 0) if ln[0] == "int" else ci.ev.decide(ci.st, c)
        e = err(ci.ev, ("sym", "TryFromSliceError", "core::array::TryFromSliceError"))
        if kn is not None:
            return ok(ci.ev, x) if kn else e
        return ("fork", [([(c, 1)], ok(ci.ev, x)), ([(c, 0)], e)])
    m = re.match(r"^u(8|16|32)$", dst)
    if m and re.match(r"^u(16|32|64|size)$", ta[0]):
        return m_try_from(ci, int(m.group(1)))
    return None


def m_try_from(ci, bits=None):
    m = re.search(r"for u(8|16|32)>::try_from$", ci.name)
    bits = bits or int(m.group(1))
    ty = "u%d" % bits
    x = ci.args[0]
    mx = (1 << bits) - 1
    if x[0] == "int":
        return ok(ci.ev, mk_int(x[1], ty)) if x[1] <= mx else err(ci.ev, ("sym", "TryFromIntError", "core::num::error::TryFromIntError"))
    xt = term_type(x) or "usize"
    c = ("app", "Gt", (x, mk_int(mx, xt)))
    return ("fork", [([(c, 0)], ok(ci.ev, ("app", "cast:" + ty, (x,)))), ([(c, 1)], err(ci.ev, ("sym", "TryFromIntError", "core::num::error::TryFromIntError")))])


def m_res_comb(ci):
    which = ci.name.split("::")[-1]
    x = ci.args[0]
    ev = ci.ev
    if x[0] != "adt":
        # symbolic Result: both variants, the closure applied to the mapped one
        okv = ("unwrap", x)
        erv = ("proj", ("proj", x, ("downcast", 1, "Err")), ("field", 0, "?"))
        d = ("discr", x)
        f = ci.args[1]
        # the closure runs only on the branch whose variant it maps (its side effects belong to that branch alone)
        if which == "map":
            return ("fork", [([(d, 0)], lambda ci2: apply_closure(ci2, f, [okv], multi=lambda r: ok(ci2.ev, r))), ([(d, 1)], err(ev, erv))])
        return ("fork", [([(d, 0)], ok(ev, okv)), ([(d, 1)], lambda ci2: apply_closure(ci2, f, [erv], multi=lambda r: err(ci2.ev, r)))])
    f = ci.args[1]
    if which == "map":
        if x[3] == "Ok":
            return apply_closure(ci, f, [x[4][0]], multi=lambda r: ok(ev, r))
        return x
    if x[3] == "Err":
        return apply_closure(ci, f, [x[4][0]], multi=lambda r: err(ev, r))
    return x


def m_dur_is_zero(ci):
    d = ci.deref(ci.args[0]) if ci.args[0][0] == "ref" else ci.args[0]
    if d[0] == "app" and d[1] in ("duration_ms", "duration_us") and d[2][0][0] == "int":
        return TRUE if d[2][0][1] == 0 else FALSE
    return ("app", "is_zero", (d,))


def m_transpose(ci):
    x = ci.args[0]
    ev = ci.ev
    if x[0] == "adt":
        if x[3] == "None":
            return ok(ev, none(ev))
        r = x[4][0]
        if r[0] == "adt":
            return ok(ev, some(ev, r[4][0])) if r[3] == "Ok" else err(ev, r[4][0])
        d = ("discr", r)
        return ("fork", [([(d, 0)], ok(ev, some(ev, ("unwrap", r)))), ([(d, 1)], err(ev, ("proj", ("proj", r, ("downcast", 1, "Err")), ("field", 0, "?"))))])
    return None


def inline_closure(ci, f, args):
    """('inline', ..) result running closure `f` as a frame of the calling evaluator (its result becomes the call's result): for
    closures whose body does things the calling analysis must see in place (bus exchanges, writes), else None"""
    ev = ci.ev
    if f[0] != "closure" or f[1] not in ev.prog.fns or not ev.static_effects(f[1]):
        return None
    fn = ev.prog.fns[f[1]]
    selfarg = f
    if fn["body"]["locals"][1]["ty"]["k"] == "ref":
        selfarg = ("ref", ("val", f, ()), False)
    ev.stats["inlined"].add(fn["name"])
    return ("inline", fn, [selfarg] + list(args))


def m_and_then(ci):
    x, f = ci.args
    ev = ci.ev
    if x[0] == "adt":
        if x[3] == "Ok":
            return inline_closure(ci, f, [x[4][0]]) or apply_closure(ci, f, [x[4][0]], multi=lambda v: v)
        return x
    d = ("discr", x)
    erv = ("proj", ("proj", x, ("downcast", 1, "Err")), ("field", 0, "?"))
    inl = inline_closure(ci, f, [("unwrap", x)])
    return ("fork", [([(d, 0)], inl if inl is not None else (lambda ci2: apply_closure(ci2, f, [("unwrap", x)], multi=lambda v: v))), ([(d, 1)], err(ev, erv))])


def m_bool_then(ci):
    b = ci.args[0]
    ev = ci.ev
    which = ci.name.split("::")[-1]

    def val():
        if which == "then_some":
            return ci.args[1]
        return apply_closure(ci, ci.args[1], [])
    if b[0] == "int":
        if not b[1]:
            return none(ev)
        if which == "then":
            return apply_closure(ci, ci.args[1], [], multi=lambda v: some(ev, v))
        v = val()
        return some(ev, v) if v is not None else None
    if which == "then_some":
        return ("fork", [([(b, 1)], some(ev, ci.args[1])), ([(b, 0)], none(ev))])

    def on_true(ci2):
        return apply_closure(ci2, ci.args[1], [], multi=lambda v: some(ci2.ev, v))
    return ("fork", [([(b, 1)], on_true), ([(b, 0)], none(ev))])


def m_range_contains(ci):
    r = ci.deref(ci.args[0]) if ci.args[0][0] == "ref" else ci.args[0]
    x = ci.deref(ci.args[1]) if ci.args[1][0] == "ref" else ci.args[1]
    if r[0] == "adt" and len(r[4]) == 2:
        lo, hi = r[4]
        a = ci.ev.binop(ci.st, "Ge", x, lo, "?")
        b = ci.ev.binop(ci.st, "Lt", x, hi, "?")
        return conj([a, b])
    return None


def m_copied(ci):
    x = ci.args[0]
    if x[0] == "adt":
        if x[3] == "Some":
            return some(ci.ev, ci.deref(x[4][0]))
        return x
    return ("app", "copied", (x,))


def m_first(ci):
    sl = ci.deref(ci.args[0])
    n = len_term(sl)
    if n[0] == "int":
        if n[1] == 0:
            return none(ci.ev)
        return some(ci.ev, ("ref", ("val", index_term(sl, mk_int(0, "usize")), ()), False))
    z = ("app", "Eq", (n, mk_int(0, "usize")))
    return ("fork", [([(z, 1)], none(ci.ev)), ([(z, 0)], some(ci.ev, ("ref", ("val", index_term(sl, mk_int(0, "usize")), ()), False)))])


def m_slice_get(ci):
    sl = ci.deref(ci.args[0])
    i = ci.args[1]
    if i[0] not in ("int", "sym", "proj", "app"):
        return None
    n = len_term(sl)
    c = ("app", "Lt", (i, n))
    elem = some(ci.ev, ("ref", ("val", index_term(sl, i), ()), False))
    if i[0] == "int" and n[0] == "int":
        return elem if i[1] < n[1] else none(ci.ev)
    return ("fork", [([(c, 1)], elem), ([(c, 0)], none(ci.ev))])


def m_result_ok(ci):
    x = ci.args[0]
    ev = ci.ev
    if x[0] == "adt":
        return some(ev, x[4][0]) if x[3] == "Ok" else none(ev)
    return ("app", "ok", (x,))


def m_ok_or_else(ci):
    ev = ci.ev
    x, f = ci.args
    if x[0] == "adt":
        if x[3] == "Some":
            return ok(ev, x[4][0])
        return call_closure_err(ci, f)
    d = ("discr", x)
    okv = ok(ev, ("unwrap", x))
    errv = closure_result(ci, f)
    return ("fork", [([(d, 1)], okv), ([(d, 0)], err(ev, errv))])


def closure_result(ci, f):
    ev = ci.ev
    if f[0] == "closure":
        fn = ev.prog.fns.get(f[1])
        if fn is not None:
            from mireval import Evaluator
            why = ev.static_effects(f[1])
            if why:
                # only the closure's value is used here: anything else it does would be lost
                raise Unsupported("the closure %s is evaluated for its value only, but has effects (%s)" % (f[1].split("::", 1)[-1], why))
            sub = Evaluator(ev.prog, ev.models, ev.log_on, {}, ev.no_inline)
            sub.fnrefs = ev.fnrefs
            st2 = ci.st.fork()
            st2.stack = []
            st2.trace = ()
            paths = [p for p in sub.run_body(fn, fn["body"], [f], st=st2) if p.kind == "return"]
            if len(paths) == 1:
                return sub.detach(paths[0].state, paths[0].value)
    return ("app", "call", (f,))


def call_closure_err(ci, f):
    return err(ci.ev, closure_result(ci, f))


def vec_update(ci, fn):
    a = ci.args[0]
    if a[0] != "ref":
        ci.st.emit(("call", ci.name, tuple(ci.args), UNIT, ci.w, None))
        return UNIT
    old = ci.ev.load(ci.st, a[1])
    new = fn(as_seq(old))
    ci.ev.store(ci.st, a[1], new, ci.w)
    if ci.st.aux.get("watch_vec"):
        ci.st.emit(("vecop", ci.name.split("::")[-1], a[1], tuple(ci.args[1:]), ci.w, tuple(ci.deref(x) if x[0] == "ref" else None for x in ci.args[1:])))
    return UNIT


def m_vec_push(ci):
    x = ci.args[1]
    return vec_update(ci, lambda s: ("seq", s[1] + (("elem", x),)))


def m_vec_extend(ci):
    sl = ci.deref(ci.args[1])
    if sl[0] == "bytes":
        items = tuple(("elem", mk_int(b, "u8")) for b in sl[1])
        return vec_update(ci, lambda s: ("seq", s[1] + items))
    if sl[0] == "array":
        items = tuple(("elem", e) for e in sl[1])
        return vec_update(ci, lambda s: ("seq", s[1] + items))
    return vec_update(ci, lambda s: ("seq", s[1] + (("splice", sl),)))


def m_vec_resize(ci):
    n, x = ci.args[1], ci.args[2]
    return vec_update(ci, lambda s: ("seq", s[1] + (("fill_to", n, x),)))


def m_vec_clear(ci):
    return vec_update(ci, lambda s: ("seq", ()))


def m_mem_take(ci):
    a = ci.args[0]
    ty = ci.dest["ty"]
    if a[0] == "ref" and ty.startswith("alloc::vec::Vec<"):
        old = ci.ev.load(ci.st, a[1])
        ci.ev.store(ci.st, a[1], ("seq", ()), ci.w)
        return old
    if a[0] == "ref" and ty in ("u8", "u16", "u32", "u64", "usize", "i8", "i16", "i32", "i64", "isize"):
        # Default::default() of every primitive integer is 0 (std: `impl Default for u16` "Returns the default value of 0")
        old = ci.ev.load(ci.st, a[1])
        ci.ev.store(ci.st, a[1], mk_int(0, ty), ci.w)
        return old
    raise Unsupported("mem::take of %s" % ty)


def m_for_each(ci):
    it, f = ci.args[0], ci.args[1]
    if it[0] == "iter" and it[1] == "slice_mut":
        sl = it[2]
        cell = ("sym", "for_each:elem", "u8")
        old = ("proj", ("item", it, ci.w.split(" ")[0]), ("deref",))
        n0 = len(ci.st.trace)
        r = apply_closure(ci, f, [("ref", ("val", old, ()), True)])
        if r is None:
            return None
        new = ci.st.trace[n0:]
        stores = [e for e in new if e[0] == "store"]
        if len(stores) == 1 and len(new) == 1 and stores[0][1] == old and not stores[0][2]:
            v = stores[0][3]
            from mireval import mentions
            if not mentions(v, {old}):
                # every element receives the same value, independent of the old one: slice::fill
                ci.st.trace = ci.st.trace[:n0]
                ci.st.emit(("fill", sl, v, ci.w))
                return UNIT
        return UNIT
    if it[0] == "iter" or (it[0] == "adt" and it[1].endswith("ops::range::Range")):
        return ("native", "for_each", it, f, UNIT)      # the closure on every item, as a loop on the evaluator's own stack
    return None


def m_into_iter(ci):
    return m_into_iter_value(ci, ci.args[0])


def m_step_by(ci):
    it, n = ci.args
    if n[0] == "int" and n[1] >= 1 and it[0] == "adt" and (it[1].endswith("ops::range::RangeFrom") or it[1].endswith("ops::range::Range")):
        return ("iter", "step_by", it, n)
    return None


def progression_of(t):
    """(start, step) when the iterator `t` is the unbounded arithmetic progression start, start+step, …; else None"""
    if t[0] == "adt" and t[1].endswith("ops::range::RangeFrom") and len(t[4]) == 1:
        return (t[4][0], mk_int(1, term_type(t[4][0]) or "usize"))
    if t[0] == "iter" and t[1] == "step_by" and t[2][0] == "adt" and t[2][1].endswith("ops::range::RangeFrom"):
        return (t[2][4][0], t[3])
    return None


def bounded_progression_of(t, other):
    """(start, step) when `t` is (0..len(X)).step_by(s) and `other` is X.chunks(s): both sides of the zip have ceil(len(X)/s) items,
    so the bounded progression behaves like the unbounded one"""
    if not (t[0] == "iter" and t[1] == "step_by" and t[2][0] == "adt" and t[2][1].endswith("ops::range::Range") and len(t[2][4]) == 2):
        return None
    lo, hi = t[2][4]
    if not (lo[0] == "int" and lo[1] == 0 and t[3][0] == "int"):
        return None
    if not (other[0] == "iter" and other[1] in ("chunks",) and other[3] == mk_int(t[3][1], "usize")):
        return None
    if hi != len_term(other[2]) and hi != ("len", other[2]):
        return None
    return (lo, t[3])


def m_into_iter_value(ci, x):
    if x[0] == "adt" and x[1] == "core::option::Option":
        # Option::into_iter: zero or one item
        return ("iter", "array", ("array", tuple(x[4][:1]) if x[3] == "Some" else ()))
    if (term_type(x) or "").startswith("core::option::Option<"):
        return ("iter", "option", x)
    if x[0] == "iter":
        return x
    if x[0] == "adt" and x[1].endswith("ops::range::Range"):
        return x   # impl<I: Iterator> IntoIterator for I: a Range is its own iterator
    if x[0] in ("array", "bytes"):
        return ("iter", "array", x)      # [T; N]::into_iter yields the elements by value, in order
    if x[0] == "ref":
        return ("iter", "slice", ci.ev.load(ci.st, x[1]))
    return ("iter", "into", x)


def concrete_step(ci, it):
    """(first item, iterator over the rest) | ("end",) for an iterator whose length is a known small constant, else None.
    A loop over such an iterator is executed iteration by iteration instead of being widened (mireval.arrive_loop_header)."""
    if it[0] == "adt" and it[1].endswith("ops::range::Range") and len(it[4]) == 2 and it[4][0][0] == "int" and it[4][1][0] == "int":
        lo, hi = it[4]
        if hi[1] - lo[1] > 32:
            return None
        if lo[1] >= hi[1]:
            return ("end",)
        return (lo, ("adt", it[1], it[2], it[3], (mk_int(lo[1] + 1, lo[2]), hi)))
    if it[0] != "iter":
        return None
    if it[1] in ("slice", "array"):
        v = it[2]
        byref = it[1] == "slice"
        wrap = (lambda e: ("ref", ("val", e, ()), False)) if byref else (lambda e: e)
        if v[0] == "app" and v[1] == "subslice" and v[2][1][0] == "int" and v[2][2][0] == "int":
            base, lo, hi = v[2]
            if hi[1] - lo[1] > 32:
                return None
            if lo[1] >= hi[1]:
                return ("end",)
            from mireval import index_term
            return (wrap(index_term(base, lo)), ("iter", it[1], ("app", "subslice", (base, mk_int(lo[1] + 1, "usize"), hi))))
        if v[0] == "bytes" and len(v[1]) <= 32:
            if not v[1]:
                return ("end",)
            return (wrap(mk_int(v[1][0], "u8")), ("iter", it[1], ("bytes", v[1][1:])))
        if v[0] == "array" and len(v[1]) <= 32:
            if not v[1]:
                return ("end",)
            return (wrap(v[1][0]), ("iter", it[1], ("array", v[1][1:])))
        return None
    if it[1] in ("copied", "cloned"):
        r = concrete_step(ci, it[2])
        if r is None or r == ("end",):
            return r
        e = r[0]
        return (ci.ev.load(ci.st, e[1]) if e[0] == "ref" else e, ("iter", it[1], r[1]))
    return None


def m_iter_next(ci):
    ev = ci.ev
    it = ci.deref(ci.args[0])
    if it[0] == "iter" and it[1] == "option" and ci.args[0][0] == "ref":
        # the iterator of a symbolic Option: its value once if it is Some, then nothing
        x = it[2]
        d = ("discr", x)

        def once(ci2):
            ci2.ev.store(ci2.st, ci2.args[0][1], ("iter", "array", ("array", ())), ci2.w)
            return some(ci2.ev, ("unwrap", x))
        return ("fork", [([(d, 1)], once), ([(d, 0)], none(ev))])
    cs = concrete_step(ci, it) if ci.args[0][0] == "ref" else None
    if cs is not None:
        if cs == ("end",):
            return none(ev)
        ev.store(ci.st, ci.args[0][1], cs[1], ci.w)
        return some(ev, cs[0])
    n = ci.st.aux.get("next_count", 0)
    site = ci.w.split(" ")[0]
    by_value = False
    if it[0] == "iter" and it[1] in ("copied", "cloned") and it[2][0] == "iter" and it[2][1] in ("slice", "array"):
        # copied() / cloned() yield the same elements by value: the generic item is `*item(inner)`, with the inner iterator's count
        it = it[2]
        by_value = True
    item = ("item", it, site)
    if by_value:
        item = ("proj", item, ("deref",))
    extra = []
    src = it
    if it[0] == "iter" and it[1] == "flat_map":
        # the items of flat_map(f) are the items of f(x) for the items x of the outer iterator, in order: the generic
        # item is the generic item of f(generic outer item); f must be pure and single-path
        sub_it = apply_closure(ci, it[3], [("item", it[2], site)])
        if sub_it is None:
            return None
        if not (isinstance(sub_it, tuple) and sub_it and sub_it[0] == "iter"):
            sub_it = m_into_iter_value(ci, sub_it)
        src = sub_it
        item = ("item", src, site)
    if src[0] == "iter" and src[1] == "enumerate":
        item = ("tuple", (("item_index", src), ("item", src[2], site)))
    inner = src[2] if (src[0] == "iter" and src[1] == "enumerate") else src
    if src[0] == "iter" and src[1] == "zip":
        pa, pb = progression_of(src[2]), progression_of(src[3])
        if pa is None and pb is None:
            pa, pb = bounded_progression_of(src[2], src[3]), bounded_progression_of(src[3], src[2])
        if (pa is None) == (pb is None):
            return None
        # zip with an unbounded progression start + k*step never ends on that side: it is the other side's items, the k-th one
        # paired with start + k*step, k being the position enumerate() would report
        other = src[3] if pa is not None else src[2]
        start, step = pa or pb
        ity = term_type(start) or (start[2] if start[0] == "int" else "usize")
        idx = ("item_index", ("iter", "enumerate", other))
        if step[0] == "int" and step[1] == 1:
            off = idx
        else:
            off = ("app", "Mul", (idx, mk_int(step[1], ity)))
        if not (start[0] == "int" and start[1] == 0):
            off = ("app", "Add", (start, off))
        xi = ("item", other, site)
        item = ("tuple", (off, xi) if pa is not None else (xi, off))
        inner = other
    if inner[0] == "iter" and inner[1] in ("chunks", "chunks_exact") and inner[3][0] == "int":
        # slice::chunks(n): every chunk has between 1 and n elements (core::slice::chunks docs)
        ch = ("item", inner, site)
        ln = ("len", ("proj", ch, ("deref",)))
        extra = [(("app", "Le", (ln, inner[3])), 1), (("app", "Ge", (ln, mk_int(1, "usize"))), 1)]
    # closures inside the iterator value that nothing above has run (map, filter, take_while, scan, ...; the generic item of
    # `map(f)` stands for f's result without running f): if one has effects, the generic item would hide them
    left = ev.effectful_fn_values(ci.st, ("tuple", (it[2], src)) if (it[0] == "iter" and it[1] == "flat_map") else it)
    if left:
        raise Unsupported("iteration over %s: its closure %s has effects (%s) that the generic-item model does not run" % (fmt_term(it)[:60], left[0][0].split("::", 1)[-1], left[0][1]))
    d = ("app", "has_next", (it, mk_int(n, "usize")))
    ci.st.aux["next_count"] = n + 1
    facts = [(d, 1)] + extra
    if it[0] == "adt" and it[1].endswith("ops::range::Range") and len(it[4]) == 2:
        # Range<T>::next yields start <= item < end (core::ops::Range docs)
        item = ("item", it, ci.w.split(" ")[0], n)
        facts.append((("app", "Lt", (item, it[4][1])), 1))
        facts.append((("app", "Ge", (item, it[4][0])), 1))
    def exhausted(ci2):
        # accumulators of the loop that just ran to exhaustion: acc == fold(iterator, init, step) (mireval.arrive_loop_header)
        for a in ci2.st.stack:
            for key, rec in list(a.cvisits.items()):
                if isinstance(key, tuple) and key[0] == "fold" and rec[1] is None and ci2.st.frames.get(a.fid, {}).get(key[2]) == rec[2]:
                    its1 = set()
                    from mireval import collect_items as _ci
                    _ci(rec[3], its1)
                    if its1 <= {it}:
                        ci2.st.frames[a.fid][key[2]] = rec[3]      # exactly one iteration ran: the value it computed
                    continue
                if isinstance(key, tuple) and key[0] == "fold" and rec[1] not in (None, False):
                    init, step, wv = rec[:3]
                    its = set()
                    from mireval import collect_items, mentions as _m
                    collect_items(step, its)
                    fr0 = ci2.st.frames.get(a.fid, {})
                    if its == {it} and fr0.get(key[2]) == wv:
                        fr0[key[2]] = ("app", "fold", (it, init, ("template", wv, step)))
        # loop summaries over this iterator (mireval.seq_summary) are complete now: one group per item
        for fr in ci2.st.frames.values():
            for l, v in list(fr.items()):
                if v[0] == "seq" and any(i[0] == "mapped" and i[2] == it for i in v[1]):
                    fr[l] = ("seq", tuple(("mapped_all", i[1], i[2]) if (i[0] == "mapped" and i[2] == it) else i for i in v[1]))
        return none(ci2.ev)
    return ("fork", [(facts, some(ev, item)), ([(d, 0)], exhausted)])


def seq_of_iter(it):
    """the items of an iterator over explicit elements and repeat_n blocks as byte-sequence items, else None"""
    if it[0] != "iter":
        return None
    if it[1] == "array" and it[2][0] in ("array", "bytes"):
        xs = it[2][1]
        return [("elem", mk_int(x, "u8") if isinstance(x, int) else x) for x in xs]
    if it[1] == "repeat_n":
        return [("repeat", it[3], it[2])]
    if it[1] == "chain":
        a, b = seq_of_iter(it[2]), seq_of_iter(it[3])
        return None if a is None or b is None else a + b
    return None


def m_collect(ci):
    ty = ci._sub(ci.dest["ty"])
    items = seq_of_iter(ci.args[0]) if ty.startswith("alloc::vec::Vec<") else None
    if items is not None:
        # n copies appended to a vector of known length L are a fill up to L + n (what Vec::resize does when growing)
        out = []
        ln = mk_int(0, "usize")
        for i in items:
            if i[0] == "elem":
                out.append(i)
                ln = mk_int(ln[1] + 1, "usize") if ln[0] == "int" else ("app", "Add", (ln, mk_int(1, "usize")))
            else:
                ln = ("app", "Add", (ln, i[1]))
                out.append(("fill_to", ln, i[2]))
        return ("seq", tuple(out))
    return ("app", "collect:" + ty, (ci.args[0],))


def m_unwrap_or_else(ci):
    x, f = ci.args
    if x[0] == "adt":
        if x[3] == "Some":
            return x[4][0]
        return apply_closure(ci, f, [], multi=lambda v: v)
    d = ("discr", x)
    return ("fork", [([(d, 1)], ("unwrap", x)), ([(d, 0)], lambda ci2: apply_closure(ci2, f, [], multi=lambda v: v))])


def m_split_first(ci):
    a = ci.args[0]
    sl = ci.deref(a) if a[0] == "ref" else a
    ln = len_term(sl)
    from mireval import index_term
    first = ("ref", ("val", index_term(sl, mk_int(0, "usize")), ()), False) if not (ln[0] == "int" and ln[1] == 0) else None
    if sl[0] == "bytes":
        rest = ("bytes", sl[1][1:])
    elif sl[0] == "array":
        rest = ("array", sl[1][1:])
    else:
        rest = ("app", "subslice", (sl, mk_int(1, "usize"), ("len", sl)))
    both = lambda: some(ci.ev, ("tuple", (first, ("ref", ("val", rest, ()), False))))
    if ln[0] == "int":
        return none(ci.ev) if ln[1] == 0 else both()
    c = ("app", "Eq", (ln, mk_int(0, "usize")))
    kn = ci.ev.decide(ci.st, c)
    if kn is not None:
        return none(ci.ev) if kn else both()
    return ("fork", [([(c, 1)], none(ci.ev)), ([(c, 0)], both())])


def table_items(ci, it):
    """the elements (as the iterator yields them) of an iterator over a small table whose length is known, else None"""
    out = []
    cur = it
    for _ in range(40):
        r = concrete_step(ci, cur)
        if r is None:
            return None
        if r == ("end",):
            return out
        out.append(r[0])
        cur = r[1]
    return None


def m_search(ci):
    """find / position / any / all with a pure predicate over a table of known length: a decision chain in element order"""
    which = ci.name.split("::")[-1]
    it = ci.deref(ci.args[0]) if ci.args[0][0] == "ref" else ci.args[0]
    pred = ci.args[1]
    items = table_items(ci, it)
    if items is None:
        return None
    ev = ci.ev
    conds = []
    for x in items:
        arg = ("ref", ("val", x, ()), False) if which == "find" else x     # find's predicate takes &Item
        n0 = len(ci.st.trace)
        b = apply_closure(ci, pred, [arg])
        if b is None or any(e[0] in ("store", "call", "write", "vecop", "fill", "panic", "sum") for e in ci.st.trace[n0:]):
            return None         # only pure predicates: all of them are evaluated up front
        conds.append(b)
    branches = []
    prefix = []
    for k, (x, b) in enumerate(zip(items, conds)):
        hit = prefix + [(b, 0 if which == "all" else 1)]
        if which == "find":
            val = some(ev, x)
        elif which == "position":
            val = some(ev, mk_int(k, "usize"))
        else:
            val = FALSE if which == "all" else TRUE
        branches.append((hit, val))
        prefix = prefix + [(b, 1 if which == "all" else 0)]
    end = none(ev) if which in ("find", "position") else (TRUE if which == "all" else FALSE)
    branches.append((prefix, end))
    if ci.args[0][0] == "ref" and which in ("find", "position", "any", "all"):
        pass        # (the iterator is consumed up to the hit; no caller here reuses it)
    return ("fork", branches)


def m_contains(ci):
    sl = ci.deref(ci.args[0]) if ci.args[0][0] == "ref" else ci.args[0]
    x = ci.deref(ci.args[1]) if ci.args[1][0] == "ref" else ci.args[1]
    if sl[0] == "array" and len(sl[1]) <= 40:
        elems = list(sl[1])
    elif sl[0] == "bytes" and len(sl[1]) <= 40:
        elems = [mk_int(b, "u8") for b in sl[1]]
    else:
        return None
    ev = ci.ev
    branches = []
    prefix = []
    for e in elems:
        b = struct_eq(ci.ev, ci.st, x, e)
        branches.append((prefix + [(b, 1)], TRUE))
        prefix = prefix + [(b, 0)]
    branches.append((prefix, FALSE))
    return ("fork", branches)


def m_mem_replace(ci):
    a, v = ci.args
    if a[0] != "ref":
        return None
    old = ci.ev.load(ci.st, a[1])
    ci.ev.store(ci.st, a[1], v, ci.w)
    return old


def m_vec_extend_iter(ci):
    it = ci.args[1]
    if it[0] == "ref":
        it = ("iter", "slice", ci.ev.load(ci.st, it[1]))        # Extend<&T> for &[T] / &Vec<T>
    while it[0] == "iter" and it[1] in ("copied", "cloned"):
        it = it[2]
    if it[0] == "iter" and it[1] == "slice":
        sl = it[2]
        return vec_update(ci, lambda s: ("seq", s[1] + (("splice", sl),)))
    grp = per_item_group(ci, ci.args[1])
    if grp is not None:
        # extend(iter.flat_map(|x| [f(x), g(x)])) / extend(iter.map(f)): the same group of elements for every item, in order
        tmpl, src = grp
        return vec_update(ci, lambda s: ("seq", s[1] + (("mapped_all", tuple(("elem", e) for e in tmpl), src),)))
    return None


def per_item_group(ci, it):
    """(elements produced per item, source iterator) of a map / flat_map pipeline over one source, evaluated on the
    source's generic item with pure single-path closures; None if it is not of that shape"""
    site = ci.w.split(" ")[0]
    if it[0] != "iter":
        return None
    if it[1] in ("slice", "copied", "cloned", "array", "chain", "once"):
        src = it
        while src[0] == "iter" and src[1] in ("copied", "cloned"):
            src = src[2]
        x = ("item", src, site)
        if it[1] in ("copied", "cloned"):
            x = ("proj", x, ("deref",))
        return ([x], src)
    if it[1] in ("map", "flat_map"):
        inner = per_item_group(ci, it[2])
        if inner is None:
            return None
        elems, src = inner
        out = []
        for x in elems:
            n0 = len(ci.st.trace)
            r = apply_closure(ci, it[3], [x])
            if r is None or any(e[0] in ("store", "call", "write", "vecop", "fill", "panic") for e in ci.st.trace[n0:]):
                return None
            if it[1] == "map":
                out.append(r)
            elif r[0] == "array":
                out.extend(r[1])
            elif r[0] == "bytes":
                out.extend(mk_int(b, "u8") for b in r[1])
            else:
                return None
        return (out, src)
    return None


def m_int_helper(ci):
    op = ci.name.split("::")[-1]
    m = re.search(r"impl (u(?:\d+|size))>", ci.name)
    ty = m.group(1) if m else "usize"
    args = tuple(ci.args)
    if op in ("next_multiple_of", "div_ceil") and len(args) == 2:
        x, k = args
        if not (k[0] == "int" and k[1] > 0):
            ci.st.emit(("assert_undecided", "DivisionByZero", ("app", "Ne", (k, mk_int(0, ty))), ci.w))
        if op == "next_multiple_of":
            # std: panics on overflow when overflow checks are on (debug / test profile): x + (k - 1) must fit the type
            km1 = mk_int(k[1] - 1, ty) if k[0] == "int" else ("app", "Sub", (k, mk_int(1, ty)))
            ci.st.emit(("assert_undecided", "Overflow(Add)", ("app", "AddOvf", (x if term_type(x) or x[0] != "app" else ("app", "cast:" + ty, (x,)), km1)), ci.w))
    if op == "pow" and len(args) == 2:
        ci.st.emit(("assert_undecided", "Overflow(Mul)", ("app", "MulOvf", (("app", "pow", args), mk_int(1, ty))), ci.w))
    return ("app", op, args)


def m_lazylock_deref(ci):
    x = ci.args[0]
    for _ in range(3):
        if x[0] == "ref":
            x = ci.ev.load(ci.st, x[1])
    if x[0] == "app" and x[1] == "lazylock":
        return ("ref", ("val", ("app", "lazy", (x[2][0],)), ()), False)
    return None


def m_fold(ci):
    it = ci.args[0]
    if concrete_step(ci, it) is not None:
        return ("native", "fold", it, ci.args[2], ci.args[1])
    return ("app", "fold", (ci.args[0], ci.args[1], ci.args[2]))


def m_opt_as_ref(ci):
    a = ci.args[0]
    x = ci.deref(a) if a[0] == "ref" else a
    ev = ci.ev
    if x[0] == "adt":
        if x[3] == "None":
            return none(ev)
        if a[0] == "ref":
            tgt = a[1]
            return some(ev, ("ref", tgt[:-1] + (tgt[-1] + (("downcast", 1, "Some"), ("field", 0, "?")),), False))
        return some(ev, ("ref", ("val", x[4][0], ()), False))
    d = ("discr", x)
    return ("fork", [([(d, 1)], some(ev, ("ref", ("val", ("unwrap", x), ()), False))), ([(d, 0)], none(ev))])


def m_inspect(ci):
    x, f = ci.args
    good = ("Ok", "Some")

    def run(ci2, payload):
        r = apply_closure(ci2, f, [("ref", ("val", payload, ()), False)], multi=lambda v: x)
        return r
    if x[0] == "adt":
        return run(ci, x[4][0]) if x[3] in good else x
    d = ("discr", x)
    is_opt = (term_type(x) or "").startswith("core::option::Option")
    gv = 1 if is_opt else 0
    return ("fork", [([(d, gv)], lambda ci2: run(ci2, ("unwrap", x))), ([(d, 1 - gv)], x)])


def m_inspect_err(ci):
    x, f = ci.args

    def run(ci2, payload):
        return apply_closure(ci2, f, [("ref", ("val", payload, ()), False)], multi=lambda v: x)
    if x[0] == "adt":
        return run(ci, x[4][0]) if x[3] == "Err" else x
    d = ("discr", x)
    erv = ("proj", ("proj", x, ("downcast", 1, "Err")), ("field", 0, "?"))
    return ("fork", [([(d, 1)], lambda ci2: run(ci2, erv)), ([(d, 0)], x)])


def m_opt_filter(ci):
    x, p = ci.args
    ev = ci.ev

    def test(ci2, payload):
        def fin(b):
            if b[0] == "int":
                return some(ci2.ev, payload) if b[1] else none(ci2.ev)
            return ("fork", [([(b, 1)], some(ci2.ev, payload)), ([(b, 0)], none(ci2.ev))])
        return apply_closure(ci2, p, [("ref", ("val", payload, ()), False)], multi=fin)
    if x[0] == "adt":
        return test(ci, x[4][0]) if x[3] == "Some" else x
    d = ("discr", x)
    return ("fork", [([(d, 1)], lambda ci2: test(ci2, ("unwrap", x))), ([(d, 0)], none(ev))])


def m_try_iter(ci):
    which = ci.name.split("::")[-1]
    it = ci.deref(ci.args[0]) if ci.args[0][0] == "ref" else ci.args[0]
    if which == "try_for_each":
        return ("native", "try_for_each", it, ci.args[1], UNIT)
    return ("native", "try_fold", it, ci.args[2], ci.args[1])


def m_find_map(ci):
    """Generic-item semantics, like a `for` loop with an early return: (a) no item at all -> None; (b) f(item) is Some for
    an item all of whose predecessors gave None -> that Some; (c) every item gave None -> None."""
    ev = ci.ev
    it = ci.deref(ci.args[0]) if ci.args[0][0] == "ref" else ci.args[0]
    f = ci.args[1]
    n = ci.st.aux.get("next_count", 0)
    ci.st.aux["next_count"] = n + 2
    site = ci.w.split(" ")[0]
    item = ("item", it, site)
    if it[0] == "iter" and it[1] == "slice_mut":
        item = ("ref", ("val", ("proj", item, ("deref",)), ()), True)
    d0 = ("app", "has_next", (it, mk_int(n, "usize")))
    d1 = ("app", "has_next", (it, mk_int(n + 1, "usize")))

    def settle(st, v):
        """outcome of f on the generic item -> outcome of find_map"""
        if v[0] == "adt" and v[3] == "Some":
            st.emit(("widen", "find_map", (), site))          # any number of earlier items, all answered None
            return v
        if v[0] == "adt" and v[3] == "None":
            st.decisions = st.decisions + ((d1, 0, ci.w),)
            st.emit(("widen", "find_map", (), site))
            return v
        return None

    def on_items(ci2):
        r = apply_closure(ci2, f, [item], multi=lambda v: v)
        if r is None:
            return None
        if isinstance(r, tuple) and r and r[0] == "multi":
            out = []
            for ps, kind, v in r[1]:
                if kind == "return":
                    v = settle(ps, v)
                    if v is None:
                        return None
                out.append((ps, kind, v))
            return ("multi", out)
        return settle(ci2.st, r)
    return ("fork", [([(d0, 0)], none(ev)), ([(d0, 1)], on_items)])


def concrete_items(ci, it):
    """Items of an iterator over constant data, else None."""
    if it[0] == "iter" and it[1] == "slice":
        v = it[2]
        if v[0] == "bytes":
            return [("ref", ("val", mk_int(b, "u8"), ()), False) for b in v[1]]
        return None
    if it[0] == "iter" and it[1] == "array" and it[2][0] in ("array", "bytes"):
        return [mk_int(x, "u8") if isinstance(x, int) else x for x in it[2][1]]
    if it[0] == "iter" and it[1] == "copied":
        base = concrete_items(ci, it[2])
        if base is None:
            return None
        return [ci.ev.load(ci.st, x[1]) if x[0] == "ref" else x for x in base]
    if it[0] == "iter" and it[1] == "map":
        base = concrete_items(ci, it[2])
        if base is None:
            return None
        out = []
        for x in base:
            r = apply_closure(ci, it[3], [x])
            if r is None:
                return None
            out.append(r)
        return out
    return None


def apply_closure(ci, f, args, multi=None):
    ev = ci.ev
    from mireval import Evaluator
    if f[0] == "closure":
        fn = ev.prog.fns.get(f[1])
        argv = [f] + list(args)
    elif f[0] == "fn":
        fj = ev.fnrefs[f[1]]
        fn = ev.prog.fns.get((fj.get("resolved") or fj)["path"])
        argv = list(args)
        rj = fj.get("resolved") or fj
        if fn is None and rj["path"].endswith("::{constructor#0}"):
            # a tuple-struct or tuple-variant constructor used as a function (`.map(Some)`, `.map(Offset)`): the aggregate itself
            nm = re.sub(r"::<[^>]*>", "", rj["name"])
            a = ev.adt(nm)
            if a is not None and a.get("kind") == "struct":
                v = ev.mk_adt(nm, a["variants"][0]["name"], tuple(args))
            else:
                parent, _, vname = nm.rpartition("::")
                a = ev.adt(parent)
                if a is None or not any(x["name"] == vname for x in a["variants"]):
                    return None
                v = ev.mk_adt(parent, vname, tuple(args))
            return multi(v) if multi is not None else v
        if fn is None:
            # an external function item used as a closure (e.g. `fold(0, u8::wrapping_add)`): apply its model
            class _FCI:
                pass
            c2 = _FCI()
            c2.ev, c2.st, c2.fnj = ev, ci.st, fj
            c2.name = (fj.get("resolved") or fj)["name"]
            c2.orig_name = fj["name"]
            c2.args = list(args)
            c2.dest = {"ty": "?", "proj": [], "local": 0}
            c2.w = "?"
            c2.act = None
            c2.targs = lambda: [a["s"] for a in (fj.get("resolved") or fj)["args"]]
            c2.orig_targs = lambda: [a["s"] for a in fj["args"]]
            c2._sub = lambda s_: s_
            c2.deref = lambda v: ev.load(ci.st, v[1]) if v[0] == "ref" else ("proj", v, ("deref",))
            try:
                r = ev.models.call(c2)
            except Exception:
                return None
            if isinstance(r, tuple) and r and r[0] in ("fork", "panic!", "inline", "suspend", "native", "multi"):
                return None
            return multi(r) if (multi is not None and r is not None) else r
    else:
        return None
    if fn is None:
        return None
    if f[0] == "fn" and ev.no_inline(fn):
        # a protocol-level unit used as a function value (e.g. `.map(Message::from)`): an opaque call, like a direct one
        rv = ci.st.new_sym("ret:" + fn["name"].split("::")[-1], fn.get("output", {}).get("s", "?"))
        loaded = tuple(ev.load(ci.st, a[1]) if a[0] == "ref" else None for a in args)
        ci.st.emit(("call", fn["name"], tuple(args), rv, getattr(ci, "w", "?"), None, loaded))
        return multi(rv) if multi is not None else rv
    # the caller's hooks apply inside the closure too: a call the calling analysis must see in place (a bus exchange) ends the
    # sub-run as a suspended path, which no model accepts, so the combinator becomes an unsupported construct instead of hiding it
    sub = Evaluator(ev.prog, ev.models, ev.log_on, dict(ev.hooks), ev.no_inline)
    sub.fnrefs = ev.fnrefs
    st2 = ci.st.fork()
    st2.stack = []
    st2.trace = ()
    # closures take their environment by reference for Fn/FnMut
    body = fn["body"]
    if f[0] == "closure" and body["locals"][1]["ty"]["k"] == "ref":
        argv[0] = ("ref", ("val", f, ()), False)
    allp = sub.run_body(fn, body, argv, st=st2)
    paths = [p for p in allp if p.kind == "return"]
    if multi is not None and allp and all(p.kind in ("return", "panic") for p in allp) and (len(allp) > 1 or allp[0].kind == "panic"):
        # a closure with several outcomes (e.g. `cond.then(|| self.receive())` where receive can fail): one
        # continuation per outcome, each adopting that outcome's state
        return ("multi", [(p.state, p.kind, (multi(sub.detach(p.state, p.value)) if p.kind == "return" else p.info)) for p in allp])
    if len(paths) != 1 or len(allp) != 1:
        return None
    ps = paths[0].state
    val = sub.detach(ps, paths[0].value)
    if multi is not None:
        val = multi(val)
    # the closure ran on a copy of the caller's state: adopt what it did (writes through captured references,
    # facts learned, effects emitted), so that side-effecting closures such as `cond.then(|| { self.x = ..; .. })` are not lost
    adopt_state(ci.st, ps)
    return val


def adopt_state(st, ps):
    for fid in list(st.frames.keys()):
        if fid in ps.frames:
            st.frames[fid] = ps.frames[fid]
    st.heap = ps.heap
    st.cons = ps.cons
    st.trace = st.trace + ps.trace
    st.decisions = st.decisions + tuple(d for d in ps.decisions if d not in st.decisions)
    st.fresh = max(st.fresh, ps.fresh)
    st.next_fid = max(st.next_fid, ps.next_fid)
    for k_, v_ in ps.aux.items():
        st.aux[k_] = v_


def m_sum(ci):
    ty = ci.dest["ty"]
    items = concrete_items(ci, ci.args[0])
    if items is not None:
        tot = 0
        for x in items:
            while x[0] == "ref":
                x = ci.ev.load(ci.st, x[1])
            if x[0] != "int":
                return ("app", "sum:" + ty, (ci.args[0],))
            tot += x[1]
        if wrap(tot, ty) != tot:
            return ("panic!", "attempt to add with overflow in Iterator::sum::<%s>" % ty)
        return mk_int(tot, ty)
    ci.st.emit(("sum", ty, ci.args[0], ci.w))
    return ("app", "sum:" + ty, (ci.args[0],))


def m_widen(ci):
    m = re.search(r"for ([ui](?:\d+|size))>::from$", ci.name)
    ty = m.group(1) if m else ci.dest["ty"]
    x = ci.args[0]
    return mk_int(x[1], ty) if x[0] == "int" else ("app", "cast:" + ty, (x,))


def m_to_bytes(ci):
    m = re.search(r"impl u(\d+)>::to_(be|le)_bytes", ci.name)
    n = int(m.group(1)) // 8
    x = ci.args[0]
    out = []
    for i in range(n):
        sh = 8 * i
        if x[0] == "int":
            out.append(mk_int((x[1] >> sh) & 0xFF, "u8"))
        else:
            out.append(("app", "cast:u8", (("app", "Shr", (x, mk_int(sh, "u32"))) if sh else x,)))
    if m.group(2) == "be":
        out.reverse()
    if all(o[0] == "int" for o in out):
        return ("bytes", bytes(o[1] for o in out))
    return ("array", tuple(out))


def m_wrapping(ci):
    op = ci.name.split("_")[-1]
    a, b = ci.args
    if a[0] == "int" and b[0] == "int":
        r = {"add": a[1] + b[1], "sub": a[1] - b[1], "mul": a[1] * b[1]}[op]
        return mk_int(wrap(r, a[2]), a[2])
    return ("app", "wrapping_" + op, (a, b))


def m_ref_binop(ci):
    m = re.search(r"ops::bit::(\w+)<", ci.name)
    op = m.group(1)
    # `<&u8 as Op<..>>`: the left operand is a reference even when it is symbolic (e.g. a slice iterator's item)
    a = ci.deref(ci.args[0]) if (ci.args[0][0] == "ref" or ci.name.startswith("<&")) else ci.args[0]
    b = ci.deref(ci.args[1]) if ci.args[1][0] == "ref" else ci.args[1]
    return ci.ev.binop(ci.st, op, a, b, "u8")


def m_ref_divrem(ci):
    m = re.search(r"ops::arith::(\w+)<", ci.name)
    a = ci.deref(ci.args[0]) if (ci.args[0][0] == "ref" or ci.name.startswith("<&")) else ci.args[0]
    b = ci.deref(ci.args[1]) if ci.args[1][0] == "ref" else ci.args[1]
    if not (b[0] == "int" and b[1] != 0):
        return None
    return ci.ev.binop(ci.st, m.group(1), a, b, "u8")


def m_fill(ci):
    a = ci.args[0]
    sl = ci.deref(a)
    ci.st.emit(("fill", sl, ci.args[1], ci.w))
    if a[0] == "ref" and a[1][0] in ("loc", "heap"):
        ci.ev.write_overlay(ci.st, a[1], ("fill", ci.args[1]), ci.w)
    return UNIT


def m_split_at_mut(ci):
    a, mid = ci.args
    if not (a[0] == "ref" and a[1][0] in ("loc", "heap")):
        return None
    vw = ci.ev.view_of(ci.st, a[1])
    if vw is None:
        return None
    # std: panics if mid > len
    ci.st.emit(("index_range", ci.deref(a), mk_int(0, "usize"), mid, ci.w))
    base = a[1][:-1]
    pj = a[1][-1]
    left = ("ref", base + (pj + (("rsub", mk_int(0, "usize"), mid),),), True)
    right = ("ref", base + (pj + (("rsub", mid, None),),), True)
    return ("tuple", (left, right))


def m_copy_from_slice(ci):
    a, src = ci.args
    if not (a[0] == "ref" and a[1][0] in ("loc", "heap")):
        return None
    vw = ci.ev.view_of(ci.st, a[1])
    if vw is None:
        return None
    _, lo, hi = vw
    sv = ci.deref(src) if src[0] == "ref" else src
    if sv[0] == "bytes":
        elems = tuple(mk_int(b, "u8") for b in sv[1])
    elif sv[0] == "array":
        elems = tuple(sv[1])
    else:
        return None
    # std: panics unless both lengths are equal; decided here only for constant lengths
    if not (lo[0] == "int" and hi[0] == "int" and hi[1] - lo[1] == len(elems)):
        return None
    ci.ev.write_overlay(ci.st, a[1], ("elems", elems), ci.w)
    return UNIT
