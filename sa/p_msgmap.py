"""C04 / C05 — Frame <-> Message decision tables (analysis A1).

Both `From` impls are turned into decision tables by path enumeration over symbolic
parameters; the tables are compared *as tables* with each other (identity of the
composites) and with the reference wire-code table spec/wire_codes.json.
"""
import json
import os
from mireval import Evaluator, Unsupported, fmt_term, mk_int
from models import Models
from facts import loc
from common import VERIF, at_log_levels

MSG = "flipdot_core::message::Message"
FRAME = "flipdot_core::frame::Frame"
DATA = "flipdot_core::frame::Data"
COW = "alloc::borrow::Cow"


def norm(t):
    """Drop type annotations from projection elements so that equal places compare equal."""
    if isinstance(t, tuple):
        if t and t[0] == "sym" and len(t) == 3:
            return ("sym", t[1])
        if t and t[0] == "field" and len(t) == 3 and isinstance(t[1], int):
            return ("field", t[1])
        if t and t[0] == "downcast" and len(t) == 3:
            return ("downcast", t[1])
        return tuple(norm(x) for x in t)
    return t


def norm_cons(cons, rel=False):
    """Constraint store with normalised keys; the derived ordering facts ('rel', a, b) are left out unless asked for."""
    return {norm(k): v for k, v in cons.items() if rel or k[0] not in ("rel", "bnd")}


def find_from_impl(prog, self_adt, arg_prefix):
    out = []
    for f in prog.fns.values():
        imp = f.get("impl") or {}
        if f.get("item") == "from" and imp.get("trait") == "core::convert::From" and imp.get("self_adt") == self_adt:
            ta = imp.get("trait_args", [])
            if ta and ta[0].startswith(arg_prefix):
                out.append(f)
    return out


def field_index(prog, adt, name):
    a = prog.adts[adt]
    for i, f in enumerate(a["variants"][0]["fields"]):
        if f["name"] == name:
            return i
    raise Unsupported("field %s not found in %s" % (name, adt))


class Ctx:
    def __init__(self, prog):
        self.prog = prog
        self.models = Models(prog)
        self.fm = find_from_impl(prog, MSG, FRAME)
        self.mf = find_from_impl(prog, FRAME, MSG)
        self.i_addr = field_index(prog, FRAME, "address")
        self.i_type = field_index(prog, FRAME, "message_type")
        self.i_data = field_index(prog, FRAME, "data")

    def ev(self):
        return Evaluator(self.prog, self.models)

    # canonical terms of a symbolic frame `fr`
    def t_addr(self, fr):
        return norm(("proj", fr, ("field", self.i_addr)))

    def t_type(self, fr):
        return norm(("proj", ("proj", fr, ("field", self.i_type)), ("field", 0)))

    def t_dataval(self, fr):
        return norm(("proj", fr, ("field", self.i_data)))

    def t_slice_of_data(self, d):
        return norm(("app", "cow_slice", (("proj", d, ("field", 0)),)))

    def t_len(self, fr):
        return ("len", self.t_slice_of_data(self.t_dataval(fr)))

    def t_byte(self, fr, i):
        return norm(("proj", self.t_slice_of_data(self.t_dataval(fr)), ("index", mk_int(i, "usize"))))


def cell_dom(cons, t):
    """explicit set of the values 0..255 of coordinate t admitted by the path (equalities, exclusions and constant bounds)"""
    d = cons.get(t)
    b = cons.get(("bnd", t))
    if d is None and b is None:
        return None
    vals = set(range(256))
    if d is not None:
        vals = (vals & set(d[1])) if d[0] == "in" else (vals - set(d[1]))
    if b is not None:
        lo, hi = b[1], b[2]
        vals = set(v for v in vals if (lo is None or v >= lo) and (hi is None or v <= hi))
    return ("in", frozenset(vals))


def dom_admits(d, v):
    if d is None:
        return True
    if d[0] == "in":
        return v in d[1]
    return v not in d[1]


def known_val(cons, t):
    if t[0] == "int":
        return t[1]
    d = cons.get(t)
    if d and d[0] == "in" and len(d[1]) == 1:
        return next(iter(d[1]))
    return None


def concrete_data_bytes(v):
    """bytes of a concrete Data / Cow value, else None"""
    if v[0] == "adt" and v[1] == DATA:
        v = v[4][0]
    if v[0] == "adt" and v[1] == COW:
        inner = v[4][0]
        if inner[0] == "ref" and inner[1][0] == "val":
            inner = inner[1][1]
        if inner[0] == "bytes":
            return inner[1]
        if inner[0] == "seq" and all(i[0] == "elem" and i[1][0] == "int" for i in inner[1]):
            return bytes(i[1][1] for i in inner[1])
    return None


def equal_under(cx, ev, out, orig, cons, path="value"):
    """Is `out` equal to `orig` for every input satisfying `cons`?  -> (ok, reason)"""
    out_n, orig_n = norm(out), norm(orig)
    if out_n == orig_n:
        return True, ""
    if out[0] == "int":
        kv = known_val(cons, orig_n)
        if kv is not None and kv == out[1]:
            return True, ""
        return False, "%s: produces constant %s but input %s is %s" % (path, fmt_term(out), fmt_term(orig), "unconstrained" if kv is None else kv)
    if out[0] == "adt":
        if out[1] == DATA:
            b = concrete_data_bytes(out)
            if b is None:
                return False, "%s: data %s is not the input data %s" % (path, fmt_term(out), fmt_term(orig))
            sl = cx.t_slice_of_data(orig_n)
            if known_val(cons, ("len", sl)) != len(b):
                return False, "%s: produces %d constant data byte(s) %s but the input's data length is not fixed to %d" % (path, len(b), b.hex(), len(b))
            for i, x in enumerate(b):
                if known_val(cons, norm(("proj", sl, ("index", mk_int(i, "usize"))))) != x:
                    return False, "%s: produces data byte %d = 0x%02X not implied by the input" % (path, i, x)
            return True, ""
        adt = ev.adt(out[1])
        if adt is None:
            return False, "%s: unknown ADT %s" % (path, out[1])
        base = orig
        if adt["kind"] == "enum":
            want = ev.discr_of(out[1], out[2])
            kv = known_val(cons, norm(("discr", orig)))
            if kv != want:
                return False, "%s: produces variant %s but input variant is %s" % (path, out[3], "unconstrained" if kv is None else kv)
            base = ("proj", orig, ("downcast", out[2], out[3]))
        for i, f in enumerate(out[4]):
            ok, why = equal_under(cx, ev, f, ("proj", base, ("field", i)), cons, "%s.%s" % (path, i))
            if not ok:
                return False, why
        return True, ""
    return False, "%s: %s is not the input's %s" % (path, fmt_term(out), fmt_term(orig))


# --------------------------------------------------------------------------------------
def extract_fm(cx, chk, pid):
    """Decision table of From<Frame> for Message over (len, type, first byte)."""
    if len(cx.fm) != 1:
        chk.ob("A1.anchor", "exactly one impl From<Frame> for Message (found %d)" % len(cx.fm), False, key="anchor:FM")
        return None
    fn = cx.fm[0]
    ev = cx.ev()
    paths = ev.run(fn)
    fr = ("sym", "frame", fn["body"]["locals"][1]["ty"]["s"])
    rows = []
    T, L, B = cx.t_type(fr), cx.t_len(fr), cx.t_byte(fr, 0)
    def about_cell(t):
        """t is one of the three cell coordinates, or a comparison of one of them with a constant (reflected in its domain/bounds)"""
        if t in (T, L, B):
            return True
        if t[0] == "app" and t[1] in ("Eq", "Ne", "Lt", "Le", "Gt", "Ge") and len(t[2]) == 2:
            a, b = t[2]
            return (a in (T, L, B) and b[0] == "int") or (b in (T, L, B) and a[0] == "int")
        if t[0] == "app" and t[1] == "Not" and len(t[2]) == 1:
            return about_cell(t[2][0])
        if t[0] == "and":
            return all(about_cell(x) for x in t[1])
        if t[0] == "deq":
            return t[1] in (T, L, B)
        return False

    for p in paths:
        if p.kind != "return":
            chk.ob("A1.total", "From<Frame> for Message never panics on a path (%s)" % (p.info,), False, key="FM:panic:%s" % p.info, where=loc(fn["span"]))
            continue
        cons = norm_cons(p.cons)
        bad = [norm(t) for (t, v, w) in p.decisions if not about_cell(norm(t))]
        if bad:
            chk.unproven("A1.cell-space", "FM:foreign-term:%s" % fmt_term(bad[0]),
                         "From<Frame> for Message branches on %s, which is not (message type, data length, first data byte)" % fmt_term(bad[0]), loc(fn["span"]))
            continue
        full = norm_cons(p.cons, rel=True)
        rows.append({"T": cell_dom(full, T), "L": cell_dom(full, L), "B": cell_dom(full, B), "value": p.value, "cons": cons, "path": p})
    chk.note_analysed("functions", [fn["name"]] + sorted(ev.stats["inlined"]))
    chk.extra.setdefault("paths_enumerated", 0)
    chk.extra["paths_enumerated"] += len(paths)
    return {"fn": fn, "rows": rows, "frame": fr}


def extract_mf(cx, chk):
    if len(cx.mf) != 1:
        chk.ob("A1.anchor", "exactly one impl From<Message> for Frame (found %d)" % len(cx.mf), False, key="anchor:MF")
        return None
    fn = cx.mf[0]
    ev = cx.ev()
    paths = ev.run(fn)
    msg = ("sym", "message", fn["body"]["locals"][1]["ty"]["s"])
    rows = []
    for p in paths:
        if p.kind != "return":
            chk.ob("A1.total", "From<Message> for Frame never panics on a path (%s)" % (p.info,), False, key="MF:panic:%s" % p.info, where=loc(fn["span"]))
            continue
        rows.append({"value": p.value, "cons": norm_cons(p.cons), "path": p})
    chk.note_analysed("functions", [fn["name"]] + sorted(ev.stats["inlined"]))
    chk.extra.setdefault("paths_enumerated", 0)
    chk.extra["paths_enumerated"] += len(paths)
    return {"fn": fn, "rows": rows, "message": msg}


def describe_msg(ev, v):
    """(kind, sub) of a Message value term"""
    if v[0] != "adt" or v[1] != MSG:
        return ("?", None)
    kind = v[3]
    sub = None
    for f in v[4]:
        if f[0] == "adt" and f[1] in ("flipdot_core::message::State", "flipdot_core::message::Operation"):
            sub = f[3]
    return (kind, sub)


def len_classes(rows):
    consts = set([0, 1, 2, 3, 16, 255])
    for r in rows:
        if r["L"]:
            vs = sorted(r["L"][1])
            # boundaries of the admitted set
            for i, v in enumerate(vs):
                if i == 0 or vs[i - 1] != v - 1 or i == len(vs) - 1 or vs[i + 1] != v + 1:
                    consts.add(v)
    more = set()
    for c in consts:
        if c + 1 <= 255:
            more.add(c + 1)
    return sorted(c for c in consts | more if 0 <= c <= 255)


@at_log_levels("flipdot_core")
def run_c04(chk, prog):
    cx = Ctx(prog)
    spec = json.load(open(os.path.join(VERIF, "spec/wire_codes.json")))
    chk.notes.append("A1 decision-table extraction of both From impls; every cell (data length class x 256 message types x 256 first bytes) of the "
                     "extracted Frame->Message table is compared with the reference code table, and Message->Frame is evaluated on every row's result to show the composite is the identity.")
    fm = extract_fm(cx, chk, "C04")
    mf = extract_mf(cx, chk)
    if not fm or not mf:
        return
    fn = fm["fn"]
    where = loc(fn["span"])
    fr = fm["frame"]
    rows = fm["rows"]
    ev = cx.ev()
    # --- O1 totality / exclusivity + O3 reference table, cell by cell ------------------
    fixed = {}
    for r in spec["fixed"]:
        fixed[(r["type"], len(r["data"]), r["data"][0] if r["data"] else None)] = (r["message"], r["sub"])
    lens = len_classes(rows)
    cells = 0
    bad_cells = {}
    multi = 0
    for l in lens:
        lrows = [r for r in rows if dom_admits(r["L"], l)]
        for t in range(256):
            trows = [r for r in lrows if dom_admits(r["T"], t)]
            brange = range(256) if l >= 1 else [None]
            for b in brange:
                cells += 1
                if b is None:
                    m = trows
                else:
                    m = [r for r in trows if dom_admits(r["B"], b)]
                if len(m) != 1:
                    multi += 1
                    bad_cells.setdefault(("nonfunctional", len(m)), []).append((l, t, b))
                    continue
                got = describe_msg(ev, m[0]["value"])
                if t == spec["data_chunk"]["type"]:
                    want = ("SendData", None)
                else:
                    if l == 0:
                        want = fixed.get((t, 0, None), ("Unknown", None))
                    elif l == 1:
                        want = fixed.get((t, 1, b), ("Unknown", None))
                    else:
                        want = ("Unknown", None)
                if got != want:
                    bad_cells.setdefault((want, got), []).append((l, t, b))
    chk.extra["cells_checked"] = cells
    chk.ob("C04.O1", "extracted Frame->Message table is a total function on all %d cells (lengths %s x 256 types x 256 first bytes)" % (cells, lens), multi == 0,
           key="FM:nonfunctional", where=where)
    if not bad_cells:
        chk.ob("C04.O3", "recognised cells of Frame->Message equal the reference code table on all %d cells" % cells, True, where=where)
    for (want, got), cl in sorted(bad_cells.items(), key=repr):
        if want == "nonfunctional":
            continue
        ls = sorted(set(c[0] for c in cl))
        ts = sorted(set(c[1] for c in cl))
        bs = sorted(set(c[2] for c in cl if c[2] is not None))
        key = "FM:cell:type=%s:len=%s:want=%s:got=%s" % (ts[0] if len(ts) == 1 else "*", ",".join(map(str, ls)) if len(ls) <= 3 else "*", "%s/%s" % want, "%s/%s" % got)
        chk.ob("C04.O3", "frames with type %s, data length %s, first byte %s must map to %s%s but map to %s%s (%d cells)" % (
            ts if len(ts) <= 4 else "%d values" % len(ts), ls if len(ls) <= 6 else "%d values" % len(ls),
            ["0x%02X" % x for x in bs] if 0 < len(bs) <= 4 else ("any" if not bs or len(bs) == 256 else "%d values" % len(bs)),
            want[0], "(%s)" % want[1] if want[1] else "", got[0], "(%s)" % got[1] if got[1] else "", len(cl)), False, key=key, where=where)
    # --- fields of each recognised row ---------------------------------------------------
    addr = cx.t_addr(fr)
    n_fixed_rows = 0
    for r in rows:
        v = r["value"]
        kind, sub = describe_msg(ev, v)
        okf = True
        why = ""
        if kind in ("Hello", "QueryState", "Goodbye", "PixelsComplete", "ReportState", "RequestOperation", "AckOperation"):
            n_fixed_rows += 1
            if norm(v[4][0]) != addr:
                okf, why = False, "address operand is %s, not the frame's address field" % fmt_term(v[4][0])
        elif kind == "DataChunksSent":
            n_fixed_rows += 1
            e = norm(v[4][0])
            if not (e[0] == "adt" and len(e[4]) == 1 and e[4][0] == norm(("proj", addr, ("field", 0)))):
                okf, why = False, "chunk count is %s, not the frame's 16-bit address field" % fmt_term(v[4][0])
        elif kind == "SendData":
            e = norm(v[4][0])
            if not (e[0] == "adt" and len(e[4]) == 1 and e[4][0] == norm(("proj", addr, ("field", 0)))):
                okf, why = False, "offset is %s, not the frame's 16-bit address field" % fmt_term(v[4][0])
            if norm(v[4][1]) != cx.t_dataval(fr):
                okf, why = False, "data is %s, not the frame's data" % fmt_term(v[4][1])
        elif kind == "Unknown":
            if norm(v[4][0]) != norm(fr):
                okf, why = False, "Unknown wraps %s, not the frame itself" % fmt_term(v[4][0])
        else:
            okf, why = False, "unexpected result %s" % fmt_term(v)
        chk.ob("C04.O3.fields", "row %s%s carries the frame's own address/offset/count/data" % (kind, "(%s)" % sub if sub else ""), okf,
               key="FM:fields:%s:%s" % (kind, sub), where=where, detail=why)
    chk.floor("C04.O3", "fixed-code rows in Frame->Message", n_fixed_rows, 30)
    # --- O2 identity of the composite -----------------------------------------------------
    mfn = mf["fn"]
    n_id = 0
    for r in rows:
        ev2 = cx.ev()
        paths = ev2.run(mfn, args={"message": r["value"]}, setup=lambda st, c=r["path"].cons: st.cons.update(c))
        rets = [p for p in paths if p.kind == "return"]
        kind, sub = describe_msg(ev, r["value"])
        rowname = "%s%s [%s]" % (kind, "(%s)" % sub if sub else "", cell_desc(r))
        if len(rets) != 1 or len(paths) != 1:
            chk.ob("C04.O2", "Message->Frame is deterministic on the result of row %s" % rowname, False, key="FMF:nondet:%s:%s:%s" % (kind, sub, cell_key(r)), where=loc(mfn["span"]))
            continue
        ok, why = equal_under(cx, ev2, rets[0].value, fr, norm_cons(rets[0].cons), "frame")
        n_id += 1
        chk.ob("C04.O2", "Frame->Message->Frame is the identity on row %s" % rowname, ok, key="FMF:%s:%s:%s" % (kind, sub, cell_key(r)), where=loc(mfn["span"]), detail=why)
        if ok:
            chk.sample("cell %s -> %s -> %s" % (cell_desc(r), fmt_term(r["value"]), fmt_term(rets[0].value)))
    chk.floor("C04.O2", "rows of Frame->Message composed with Message->Frame", n_id, 32)
    chk.floor("C04.O1", "rows of Message->Frame", len(mf["rows"]), 32)


def cell_desc(r):
    def d(x):
        if x is None:
            return "any"
        if x[0] == "in":
            if len(x[1]) > 128:
                return "not{%s}" % ",".join("0x%02X" % v for v in sorted(set(range(256)) - set(x[1])))
            return ",".join("0x%02X" % v for v in sorted(x[1]))
        return "not{%s}" % ",".join("0x%02X" % v for v in sorted(x[1]))
    return "type=%s len=%s byte0=%s" % (d(r["T"]), d(r["L"]), d(r["B"]))


def cell_key(r):
    return cell_desc(r).replace(" ", ";")


@at_log_levels("flipdot_core")
def run_c05(chk, prog):
    cx = Ctx(prog)
    chk.notes.append("A1: every row of the extracted Message->Frame table (32 rows: all variants x 13 states x 6 operations) is pushed through the extracted "
                     "Frame->Message table for every data-length class the row admits; the result must be the original message. Injectivity is checked on the wire keys. "
                     "The wire leg (frame <-> bytes) is the codec's: C01's rule set is run here too, as C05.wire(..).")
    import p_frame
    n = chk.include("C05.wire", p_frame.run_c01, prog)
    chk.floor("C05.wire", "codec obligations (wire leg of the trip)", n, 40)
    mf = extract_mf(cx, chk)
    if not mf or len(cx.fm) != 1:
        chk.ob("A1.anchor", "both From impls present", False, key="anchor")
        return
    ffn = cx.fm[0]
    msg = mf["message"]
    ev = cx.ev()
    keys = {}
    nrows = 0
    states = set()
    opsreq = set()
    opsack = set()
    for r in mf["rows"]:
        kind, sub = msg_row_kind(ev, r["cons"], msg)
        v = r["value"]
        if kind == "Unknown":
            # the wrapper is excluded by the property; still check it passes the frame through
            inner = norm(("proj", ("proj", msg, ("downcast", variant_idx(ev, "Unknown"))), ("field", 0)))
            chk.ob("C05.O1.unknown", "Message::Unknown(frame) converts to the wrapped frame itself", norm(v) == inner, key="MF:unknown", where=loc(mf["fn"]["span"]))
            continue
        nrows += 1
        if kind == "ReportState":
            states.add(sub)
        if kind == "RequestOperation":
            opsreq.add(sub)
        if kind == "AckOperation":
            opsack.add(sub)
        rowname = "%s%s" % (kind, "(%s)" % sub if sub else "")
        ev2 = cx.ev()
        paths = ev2.run(ffn, args={"frame": v}, setup=lambda st, c=r["path"].cons: st.cons.update(c))
        if any(p.kind != "return" for p in paths):
            chk.ob("C05.O1", "Frame->Message returns normally on the frame of %s" % rowname, False, key="MFM:panic:%s" % rowname, where=loc(ffn["span"]))
            continue
        for p in paths:
            cons = norm_cons(p.cons)
            ok, why = equal_under(cx, ev2, p.value, msg, cons, "message")
            lenc = ""
            for t, d in cons.items():
                if t[0] == "len":
                    lenc = " with data length %s" % ("%s" % sorted(d[1]) if d[0] == "in" else "not in %s" % sorted(d[1]))
            chk.ob("C05.O1", "%s%s survives Message->Frame->Message" % (rowname, lenc), ok,
                   key="MFM:%s%s" % (rowname, lenc.replace(" ", "")), where=loc(ffn["span"]), detail=(why + "; comes back as " + fmt_term(p.value)) if not ok else None)
            if ok:
                chk.sample("%s%s -> %s -> %s" % (rowname, lenc, fmt_term(v), fmt_term(p.value)))
        # injectivity key
        if v[0] == "adt" and v[1] == FRAME:
            ty = v[4][cx.i_type]
            b = concrete_data_bytes(v[4][cx.i_data])
            tyv = ty[4][0][1] if ty[0] == "adt" and ty[4][0][0] == "int" else None
            if tyv is None:
                chk.unproven("C05.O2", "MF:type-not-constant:%s" % rowname, "message type of %s is not a constant" % rowname, loc(mf["fn"]["span"]))
            key = (tyv, None if b is None else bytes(b))
            keys.setdefault(key, []).append(rowname)
            # 16-bit field passes through unchanged
            a = norm(v[4][cx.i_addr])
            src = norm(("proj", ("proj", msg, ("downcast", variant_idx(ev, kind))), ("field", 0)))
            okp = a == src or (a[0] == "adt" and len(a[4]) == 1 and a[4][0] == norm(("proj", src, ("field", 0))))
            chk.ob("C05.O2.field", "%s: the frame's 16-bit field is the message's own address/offset/count, unchanged" % rowname, okp,
                   key="MF:field:%s" % rowname, where=loc(mf["fn"]["span"]), detail=None if okp else "got %s" % fmt_term(v[4][cx.i_addr]))
    for key, names in keys.items():
        chk.ob("C05.O2", "wire key (type=%s, data=%s) is used by exactly one message: %s" % (key[0], "any" if key[1] is None else key[1].hex(), names), len(names) == 1,
               key="MF:dup:%s" % (sorted(names),), where=loc(mf["fn"]["span"]))
    # a variable-data row must own its message type exclusively
    for key, names in keys.items():
        if key[1] is None:
            others = [n for k2, ns in keys.items() if k2 != key and k2[0] == key[0] for n in ns]
            chk.ob("C05.O2", "message type %s with arbitrary data is used only by %s" % (key[0], names), not others, key="MF:type-shared:%s" % key[0], where=loc(mf["fn"]["span"]))
    chk.floor("C05.O1", "specific rows of Message->Frame", nrows, 31)
    chk.floor("C05.O1", "states covered", len(states), 13)
    chk.floor("C05.O1", "operations covered (request)", len(opsreq), 6)
    chk.floor("C05.O1", "operations covered (ack)", len(opsack), 6)
    # every variant of Message / State / Operation has a row (exhaustiveness over the enums as declared)
    madt = prog.adts[MSG]
    have = set(msg_row_kind(ev, r["cons"], msg)[0] for r in mf["rows"])
    for v in madt["variants"]:
        chk.ob("C05.O1.exhaustive", "Message::%s has a row in Message->Frame" % v["name"], v["name"] in have, key="MF:missing:%s" % v["name"], where=loc(mf["fn"]["span"]))
    for en, got in (("flipdot_core::message::State", states), ("flipdot_core::message::Operation", opsreq & opsack)):
        for v in prog.adts[en]["variants"]:
            chk.ob("C05.O1.exhaustive", "%s::%s has a row" % (en.split("::")[-1], v["name"]), v["name"] in got, key="MF:missing:%s" % v["name"], where=loc(mf["fn"]["span"]))


def variant_idx(ev, name):
    for v in ev.adt(MSG)["variants"]:
        if v["name"] == name:
            return v["idx"]
    raise Unsupported("no Message::%s" % name)


def msg_row_kind(ev, cons, msg):
    d = known_val(cons, norm(("discr", msg)))
    if d is None:
        return ("?", None)
    v = ev.variant_by_discr(MSG, d)
    kind = v["name"]
    sub = None
    for t, dom in cons.items():
        if t[0] == "discr" and t[1] != norm(msg) and dom[0] == "in" and len(dom[1]) == 1:
            inner = t[1]
            # field 1 of the variant
            fty = None
            for vv in ev.adt(MSG)["variants"]:
                if vv["name"] == kind and len(vv["fields"]) > 1:
                    fty = vv["fields"][1]["ty"].get("adt")
            if fty:
                sv = ev.variant_by_discr(fty, next(iter(dom[1])))
                if sv:
                    sub = sv["name"]
    return (kind, sub)
