"""./check entry point: hash /repo -> facts -> rule module -> evidence -> exit code."""
import argparse
import os
import sys
import traceback

sys.path.insert(0, os.path.dirname(os.path.abspath(__file__)))
import facts
from common import Check
from mireval import Unsupported

REGISTRY = {}


def register():
    import p_msgmap
    REGISTRY["C04"] = (p_msgmap.run_c04, "proof")
    REGISTRY["C05"] = (p_msgmap.run_c05, "proof")
    import p_vsign
    REGISTRY["C13"] = (p_vsign.run_c13, "proof")
    REGISTRY["C14"] = (p_vsign.run_c14, "proof")
    import p_c12
    REGISTRY["C12"] = (p_c12.run_c12, "proof")
    import p_io
    REGISTRY["C15"] = (p_io.run_c15, "proof")
    REGISTRY["C16"] = (p_io.run_c16, "proof")
    REGISTRY["C17"] = (p_io.run_c17, "other")
    REGISTRY["C18"] = (p_io.run_c18, "proof")
    REGISTRY["C20"] = (p_io.run_c20, "proof")
    import p_ctrl
    REGISTRY["C09"] = (p_ctrl.run_c09, "proof")
    REGISTRY["C10"] = (p_ctrl.run_c10, "model_checking")
    REGISTRY["C11"] = (p_ctrl.run_c11, "proof")
    import p_page
    REGISTRY["C06"] = (p_page.run_c06, "proof")
    REGISTRY["C07"] = (p_page.run_c07, "proof")
    import p_frame
    REGISTRY["C01"] = (p_frame.run_c01, "proof")
    REGISTRY["C02"] = (p_frame.run_c02, "proof")
    REGISTRY["C03"] = (p_frame.run_c03, "proof")
    import p_c08
    REGISTRY["C08"] = (p_c08.run_c08, "model_checking")
    import p_signtype
    REGISTRY["C19"] = (p_signtype.run_c19, "proof")


def main():
    ap = argparse.ArgumentParser()
    ap.add_argument("pid")
    ap.add_argument("--tier", default=os.environ.get("VERIF_TIER", "quick"))
    ap.add_argument("--repo", default=None)
    a = ap.parse_args()
    register()
    pids = a.pid.split(",")
    for p_ in pids:
        if p_ not in REGISTRY:
            print("unknown property %s" % p_)
            return 2
    if a.repo:
        facts.REPO = a.repo
    try:
        d, key = facts.ensure_facts(facts.REPO)
    except facts.ExtractError as e:
        print("check %s: /repo does not build; nothing analysed (not a property verdict)" % a.pid)
        print(str(e)[-3000:])
        return 2
    prog = facts.Program(d)
    rc = 0
    for pid in pids:
        fn, level = REGISTRY[pid]
        chk = Check(pid, a.tier, level)
        chk.extra["facts_key"] = key
        try:
            from common import config_guard
            config_guard(chk, facts.REPO)
            from common import state_guard
            state_guard(chk, prog)
            import surface
            surface.check(chk, prog, pid)
            fn(chk, prog)
            if a.tier == "thorough":
                import thorough
                thorough.run(chk, prog, pid)
        except Unsupported as e:
            chk.unproven("engine", "unsupported:%s" % str(e)[:80], "analysis could not be completed: %s" % e)
        except Exception as e:  # fail closed, but say it is the checker
            traceback.print_exc()
            chk.unproven("engine", "crash:%s" % type(e).__name__, "checker crashed: %r" % (e,))
        r = chk.finish()
        if r == 1 or (r != 0 and rc == 0):
            rc = r
    return rc


if __name__ == "__main__":
    sys.exit(main())
