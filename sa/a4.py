"""A4 — panic-site inventory with discharge rules.

The evaluator enumerates every path from the entry points over fully symbolic arguments; every
panic-capable construct met on a path (Assert terminators, unwrap/expect, range indexing,
integer `sum`, explicit panics, unknown external callees) is an obligation.  An obligation is
discharged when the path constraints decide it (D1), by interval analysis over type ranges (D2),
by a named lemma (D3), by the Page invariant (D4), by iteration bounds (D5) or by a bounded sum (D6).
Everything else is a finding.
"""
import re
from mireval import Evaluator, Unsupported, fmt_term, mk_int, int_bits, term_type, State
from models import Models
from facts import loc

PAGE = "flipdot_core::page::Page"

# external callees with no panic path that matters here (allocation failure / capacity overflow are out of scope)
BENIGN_EXTERNAL = [
    r"^core::fmt::Formatter::<'\w+>::(write_fmt|write_str|pad|debug_\w+)$",
    r"^<core::fmt::Formatter<'_> as core::fmt::Write>::write_\w+$",
    r"^core::fmt::builders::\w+::<'_, '_>::(field|finish|entry|entries)$",
    r"^core::fmt::Formatter::<'_>::debug_\w+_fields?\d*_finish$",
    r"^<.* as core::fmt::(Display|Debug|UpperHex|LowerHex)>::fmt$",
    r"^core::fmt::(Display|Debug|UpperHex|LowerHex)::fmt$",
    r"^core::fmt::num::(imp::)?<impl core::fmt::(Display|Debug|UpperHex|LowerHex|Binary|Octal) for [ui](8|16|32|64|128|size)>::fmt$",
    r"^core::fmt::(float|num)::.*::fmt$",
    r"^alloc::str::<impl str>::repeat$",
]


def site_of(w):
    """'file:line (fn)' -> (file:line, fn)"""
    m = re.match(r"^(\S+) \((.*)\)$", w or "")
    if m:
        return m.group(1), m.group(2)
    return w, "?"


class Interval:
    """Unsigned interval analysis over terms, seeded with type ranges."""

    LEN_BOUND = None      # optional hook: slice term -> maximal length (an invariant established elsewhere), or None

    def __init__(self, cons):
        self.cons = cons

    def ty_range(self, ty):
        bits, signed = int_bits(ty or "")
        if bits is None:
            return None
        if signed:
            return (-(1 << (bits - 1)), (1 << (bits - 1)) - 1)
        return (0, (1 << bits) - 1)

    def of(self, t, depth=0):
        if depth > 30:
            return None
        if t[0] == "int":
            return (t[1], t[1])
        d = self.cons.get(t)
        base = None
        if d is not None and d[0] == "in" and all(isinstance(v, int) for v in d[1]):
            base = (min(d[1]), max(d[1]))
        r = self.shape(t, depth)
        if base and r:
            return (max(base[0], r[0]), min(base[1], r[1]))
        return base or r

    def shape(self, t, depth):
        k = t[0]
        if k in ("len",):
            x = t[1]
            if x[0] == "seq":
                lo = hi = 0
                for it in x[1]:
                    if it[0] == "elem":
                        lo, hi = lo + 1, hi + 1
                    elif it[0] == "splice":
                        r = self.of(("len", it[1]), depth + 1)
                        if not r:
                            return (0, (1 << 63) - 1)
                        lo, hi = lo + r[0], hi + r[1]
                    else:
                        return (0, (1 << 63) - 1)
                return (lo, hi)
            if x[0] == "bytes":
                return (len(x[1]), len(x[1]))
            if Interval.LEN_BOUND is not None:
                b = Interval.LEN_BOUND(x)
                if b is not None:
                    return (0, b)
            return (0, (1 << 63) - 1)
        if k in ("sym", "proj", "item", "unwrap"):
            ty = term_type(t)
            if k == "proj" and t[2][0] == "index":
                bt = term_type(t[1])
                # elements of byte slices
                return (0, 255) if self.is_bytes(t[1]) else None
            if k == "proj" and t[2][0] == "deref":
                if t[1][0] == "item" and t[1][1][0] == "iter" and t[1][1][1] in ("slice", "copied") and self.is_u8_seq(t[1][1][2]):
                    return (0, 255)      # an element of a byte vector
                return self.of(t[1], depth + 1) if False else (self.ty_range(ty) if ty else None)
            return self.ty_range(ty) if ty else None
        if k == "app":
            op = t[1]
            if op.startswith("cast:"):
                tr = self.ty_range(op[5:])
                x = self.of(t[2][0], depth + 1)
                if x and tr and tr[0] <= x[0] and x[1] <= tr[1]:
                    return x
                return tr
            if op in ("Add", "Mul", "Sub", "Div", "Rem", "Shr", "Shl", "BitAnd", "BitOr") and len(t[2]) == 2:
                a = self.of(t[2][0], depth + 1)
                b = self.of(t[2][1], depth + 1)
                if op == "BitAnd":
                    if b and b[0] >= 0:
                        return (0, b[1])
                    if a and a[0] >= 0:
                        return (0, a[1])
                    return None
                if op == "Rem":
                    if b and b[0] > 0:
                        return (0, b[1] - 1)
                    return None
                if not a or not b:
                    return None
                if op == "Add":
                    return (a[0] + b[0], a[1] + b[1])
                if op == "Mul" and a[0] >= 0 and b[0] >= 0:
                    return (a[0] * b[0], a[1] * b[1])
                if op == "Sub":
                    return (a[0] - b[1], a[1] - b[0])
                if op == "Div" and b[0] > 0 and a[0] >= 0:
                    return (a[0] // b[1], a[1] // b[0])
                if op == "Shr" and b[0] >= 0 and a[0] >= 0:
                    return (a[0] >> b[1], a[1] >> b[0])
                if op == "Shl" and b[0] >= 0 and a[0] >= 0 and b[1] < 128:
                    return (a[0] << b[0], a[1] << b[1])
                if op == "BitOr" and a[0] >= 0 and b[0] >= 0:
                    m = max(a[1], b[1])
                    return (0, (1 << m.bit_length()) - 1)
            if op in ("div_ceil", "next_multiple_of") and len(t[2]) == 2:
                a = self.of(t[2][0], depth + 1)
                b = self.of(t[2][1], depth + 1)
                if a and b and b[0] > 0 and a[0] >= 0:
                    if op == "div_ceil":
                        return (-((-a[0]) // b[1]), -((-a[1]) // b[0]))
                    return (a[0], a[1] + b[1] - 1)
                return None
            if op.startswith("sum:"):
                return None
            if op == "fold" and len(t[2]) == 3:
                init = t[2][1]       # a fold's result has the accumulator's type
                ty = init[2] if init[0] == "int" else term_type(init)
                return self.ty_range(ty) if ty else None
            if op in ("Neg", "wrapping_add", "wrapping_sub", "wrapping_mul", "wrapping_neg") and t[2]:
                x = t[2][0]
                ty = x[2] if x[0] == "int" else term_type(x)
                if ty is None:
                    r = self.of(x, depth + 1)
                    if r and 0 <= r[0] and r[1] <= 255:
                        return (0, 255)      # wrapping arithmetic on a u8-ranged operand stays in u8
                return self.ty_range(ty) if ty else None
        return None

    def is_u8_seq(self, base):
        while base[0] == "iter":
            base = base[2]
        if base[0] == "bytes":
            return True
        if (term_type(base) or "").replace(" ", "") in ("alloc::vec::Vec<u8>", "[u8]", "&[u8]"):
            return True
        if base[0] != "seq":
            return False
        for it in base[1]:
            if it[0] == "elem":
                r = self.of(it[1])
                if not (r and 0 <= r[0] and r[1] <= 255):
                    return False
            elif it[0] == "splice":
                if not (self.is_bytes(it[1]) or self.is_u8_seq(it[1])):
                    return False
            else:
                return False
        return True

    def is_bytes(self, base):
        s = fmt_term(base)
        return "cow_slice" in s or "subslice" in s or "match_bytes" in s


class Obligation:
    def __init__(self, kind, fn, where, desc, key):
        self.kind = kind
        self.fn = fn
        self.where = where
        self.desc = desc
        self.key = key
        self.discharged = None   # rule name
        self.failed = []         # reasons on paths where no rule applied
        self.paths = 0


class PanicInventory:
    def __init__(self, prog, models=None, log_on=True, no_inline=None, page_terms=None, expected_panic=None):
        self.prog = prog
        self.models = models or Models(prog)
        self.log_on = log_on
        self.no_inline = no_inline
        self.obs = {}
        self.functions = set()
        self.opaque = set()
        self.paths = 0
        self.fmt_types = set()
        self.is_page_term = page_terms or (lambda t: False)
        self.expected_panic = expected_panic or (lambda p, e: False)

    def ob(self, kind, w, desc, sig):
        where, fn = site_of(w)
        key = "%s|%s|%s" % (fn, kind, sig)
        o = self.obs.get(key)
        if o is None:
            o = Obligation(kind, fn, where, desc, key)
            self.obs[key] = o
        o.paths += 1
        return o

    def settle(self, o, rule, why=None):
        if rule:
            if o.discharged is None and not o.failed:
                o.discharged = rule
        else:
            o.failed.append(why or "no discharge rule applies")
            o.discharged = None

    # ---- running an entry ------------------------------------------------------------
    def run_entry(self, fn, heap=None, setup=None, args=None):
        ev = Evaluator(self.prog, self.models, log_on=self.log_on, no_inline=self.no_inline or (lambda f: False))
        paths = ev.run(fn, heap=heap, setup=setup, args=args)
        self.paths += len(paths)
        self.functions.add(fn["name"])
        self.functions |= ev.stats["inlined"]
        self.opaque |= ev.stats["opaque_calls"]
        for p in paths:
            self.scan_path(ev, p, fn)
        self.collect_fmt_types(ev, fn)
        return paths

    def collect_fmt_types(self, ev, fn):
        names = set(ev.stats["inlined"]) | {fn["name"]}
        for f in self.prog.fns.values():
            if f["name"] not in names:
                continue
            for b in f["body"]["blocks"]:
                t = b["term"]
                if b["cleanup"] or t["t"] != "call" or "fn" not in t["func"]:
                    continue
                fj = t["func"]["fn"]
                m = re.match(r"^core::fmt::rt::Argument::<'_>::new_(\w+)$", fj["name"])
                if m and fj["args"]:
                    a = fj["args"][0]
                    while a.get("k") == "ref":
                        a = a["inner"]
                    self.fmt_types.add((m.group(1), a["s"], a.get("adt")))

    def scan_path(self, ev, p, entry):
        iv_end = Interval(p.cons)
        st_end = p.state
        for e in p.trace:
            k = e[0]
            iv, st = iv_end, st_end
            if k in State.JUDGED and isinstance(e[-1], frozenset):
                # judge with what was known when the event happened
                import copy
                st = copy.copy(st_end)
                st.cons = dict(e[-1])
                iv = Interval(st.cons)
            if k == "assert_decided":
                o = self.ob("assert:" + e[1], e[3], "%s assert" % e[1], sig_of(e[2]))
                self.settle(o, "D1 decided by the path's own tests")
            elif k == "assert_undecided":
                o = self.ob("assert:" + e[1], e[3], "%s assert on %s" % (e[1], fmt_term(e[2])), sig_of(e[2]))
                self.settle(o, *self.discharge_assert(ev, st, iv, e[1], e[2]))
            elif k == "unwrap":
                o = self.ob("unwrap", e[2], "unwrap/expect of %s" % fmt_term(e[1]), sig_of(e[1]))
                self.settle(o, *self.discharge_unwrap(ev, st, e[1]))
            elif k == "sum":
                o = self.ob("sum", e[3], "Iterator::sum::<%s> over %s" % (e[1], fmt_term(e[2])), e[1])
                self.settle(o, *self.discharge_sum(ev, st, iv, e[1], e[2]))
            elif k == "index_range":
                base, lo, hi = e[1], e[2], e[3]
                o = self.ob("index_range", e[4], "range index [%s..%s] into %s" % (fmt_term(lo), fmt_term(hi) if hi else "", fmt_term(base)), "%s..%s" % (fmt_term(lo), fmt_term(hi) if hi else ""))
                self.settle(o, *self.discharge_range(ev, st, iv, base, lo, hi))
            elif k == "index_elem":
                base, idx = e[1], e[2]
                ln = ("len", base) if base[0] != "bytes" else mk_int(len(base[1]), "usize")
                cond = ("app", "Lt", (idx, ln))
                o = self.ob("index_call", e[3], "Index::index(%s) into %s" % (fmt_term(idx), fmt_term(base)), sig_of(cond))
                if ev.decide(st, cond) == 1:
                    self.settle(o, "D1 decided by the path's own tests")
                else:
                    self.settle(o, *self.discharge_assert(ev, st, iv, "BoundsCheck", cond))
            elif k == "panic" and self.expected_panic(p, e):
                continue      # a documented panic, characterised exactly by the property's own rule
            elif k == "panic":
                # explicit panic / failed concrete assert / unwrap on a concrete Err/None, on a feasible path
                o = self.ob("panic", e[3], "reachable panic: %s" % e[1], str(e[1]))
                self.settle(o, None, "a feasible path reaches this panic (%s)" % self.path_desc(p))
            elif k == "call":
                name = e[1]
                if any(re.search(pat, name) for pat in BENIGN_EXTERNAL):
                    continue
                if self.is_dyn_fmt(name):
                    continue
                if self.no_inline and any(f["name"] == name and self.no_inline(f) for f in self.prog.fns.values()):
                    continue  # workspace function analysed as an entry of its own, for every argument
                o = self.ob("external-call", e[4], "call to unreviewed external function %s" % name, name)
                self.settle(o, None, "callee is neither modelled nor on the benign list")

    def is_dyn_fmt(self, name):
        return False

    def path_desc(self, p):
        ds = []
        for (t, v, w) in p.decisions[-6:]:
            ds.append("%s=%s" % (fmt_term(t)[:60], v))
        return "; ".join(ds)

    # ---- discharge rules -----------------------------------------------------------
    def discharge_assert(self, ev, st, iv, msg, cond):
        if msg in ("Overflow(Shl)", "Overflow(Shr)") and cond[0] == "app" and cond[1] == "Lt":
            x, bits = cond[2]
            rx, rb = iv.of(x), iv.of(bits)
            if rx and rb and rx[1] < rb[0]:
                return ("D2 shift amount %s below the bit width %d" % (list(rx), rb[0]), None)
            return (None, "shift amount %s not shown below the bit width" % fmt_term(x))
        if msg.startswith("Overflow") or msg == "OverflowNeg":
            # cond = <Op>Ovf(a, b)
            if cond[0] == "app" and cond[1].endswith("Ovf"):
                op = cond[1][:-3]
                a, b = cond[2]
                ty = term_type(a) or term_type(b) or self.ty_from_terms(a, b)
                r = iv.of(("app", op, (a, b)))
                tr = iv.ty_range(ty) if ty else None
                if r and tr and tr[0] <= r[0] and r[1] <= tr[1]:
                    return ("D2 interval %s within %s" % (list(r), ty), None)
                if op == "Sub" and ty and not ty.startswith("i"):
                    why = self.nonneg_difference(a, b)
                    if why:
                        return (why, None)
                return (None, "interval of %s(%s, %s) is %s, not within %s" % (op, fmt_term(a), fmt_term(b), list(r) if r else "unbounded", ty or "its type"))
            return (None, "overflow check of unrecognised shape")
        if msg == "BoundsCheck":
            if cond[0] == "app" and cond[1] == "Lt":
                idx, ln = cond[2]
                ri = iv.of(idx)
                rl = iv.of(ln)
                if ri and rl and ri[1] < rl[0]:
                    return ("D2 index interval %s below length %s" % (list(ri), list(rl)), None)
                # D4: Page invariant
                r4 = self.page_rule(ev, st, idx, ln)
                if r4:
                    return (r4, None)
                return (None, "index %s not shown below length %s" % (fmt_term(idx), fmt_term(ln)))
        if msg in ("DivisionByZero", "RemainderByZero"):
            return (None, "divisor not shown non-zero")
        return (None, "assert kind %s has no rule" % msg)

    def nonneg_difference(self, a, b):
        """D7: a - b cannot underflow when, in canonical polynomial form over the naturals (A7), a - b has only non-negative
        coefficients, possibly after removing one instance of  k*ceil(e/k) - e  (>= 0 for every natural e)."""
        from a7 import canon, Poly, NotCanon
        try:
            diff = canon(a).add(canon(b), -1)
        except (NotCanon, Exception):
            return None
        if all(c >= 0 for c in diff.t.values()):
            return "D7 %s - %s is the polynomial %r with non-negative coefficients over naturals" % (fmt_term(a)[:40], fmt_term(b)[:40], diff)
        for m, c in diff.t.items():
            if len(m) == 1 and m[0][0] == "cdiv" and c >= m[0][2]:
                k = m[0][2]
                e = Poly(dict(m[0][1]))
                rest = diff.add(Poly({m: k}), -1).add(e)
                if all(c2 >= 0 for c2 in rest.t.values()):
                    return "D7 %d*ceil(e/%d) - e >= 0 with e = %r; remainder %r has non-negative coefficients" % (k, k, e, rest)
        return None

    def ty_from_terms(self, a, b):
        """result type of an arithmetic op from its operands (MIR binops are homogeneous)"""
        for t in (a, b):
            if t[0] == "int":
                return t[2]
            if t[0] == "app" and t[1].startswith("cast:"):
                return t[1][5:]
            tt = term_type(t)
            if tt:
                return tt
        for t in (a, b):
            if t[0] == "app" and t[1] in ("Add", "Sub", "Mul", "Div", "Rem", "BitAnd", "BitOr", "BitXor", "Shl", "Shr") and len(t[2]) == 2:
                r = self.ty_from_terms(t[2][0], t[2][1] if t[1] not in ("Shl", "Shr") else t[2][0])
                if r:
                    return r
        return None

    def page_rule(self, ev, st, idx, ln):
        """D4: `bytes` of a Page has length total_bytes(w,h) >= 16 (C07.O3 + A5: Page's fields are private and only
        Page::new / Page::from_bytes construct it); the layout index under the bounds guard is < data_bytes <= len (lemma L3)."""
        s = fmt_term(ln)
        if ln[0] != "len":
            return None
        sl = ln[1]
        if not (sl[0] == "app" and sl[1] in ("cow_slice", "cow_owned")):
            return None
        owner = sl[2][0]
        if not (owner[0] == "proj" and owner[2][0] == "field" and self.is_page_term(owner[1])):
            return None
        page = owner[1]
        if idx[0] == "int" and idx[1] < 16:
            return "D4 constant index %d < 16 <= Page byte length (Page invariant)" % idx[1]
        # layout formula: 4 + x*bpc(h) + y/8 with x < w and y < h on the path
        from a7 import canon, layout_index_form
        form = layout_index_form(idx)
        if form is not None:
            x, y, h = form
            wterm = ("proj", page, ("field", 0))
            okx = any(rel_lt(st, x, t) for t in self.page_dims(page, 0))
            oky = any(rel_lt(st, y, t) for t in self.page_dims(page, 1))
            hsame = strip_cast(h) in [strip_cast(t) for t in self.page_dims(page, 1)]
            if okx and oky and hsame:
                return "D4 layout index 4 + x*ceil(h/8) + y/8 with x < width, y < height (lemma L3)"
        return None

    def page_dims(self, page, i):
        """terms denoting page.width (i=0) / page.height (i=1) with any field-type annotation"""
        out = []
        for ty in ("u32",):
            out.append(("proj", page, ("field", i, ty)))
        return out

    def discharge_unwrap(self, ev, st, x):
        return (None, "no lemma shows %s is Some/Ok" % fmt_term(x))

    def discharge_sum(self, ev, st, iv, ty, it):
        k, m = self.iter_bounds(ev, st, iv, it)
        tr = iv.ty_range(ty)
        if k is not None and m is not None and tr and k * m <= tr[1]:
            return ("D6 at most %d items of at most %d: sum <= %d fits %s" % (k, m, k * m, ty), None)
        return (None, "sum of %s item(s) of at most %s does not provably fit %s" % (k if k is not None else "unboundedly many", m if m is not None else "?", ty))

    def iter_bounds(self, ev, st, iv, it):
        """(max item count, max item value) of an iterator term"""
        if it[0] != "iter":
            return (None, None)
        if it[1] == "slice":
            base = it[2]
            k = None
            if base[0] == "app" and base[1] == "subslice":
                lo, hi = iv.of(base[2][1]), iv.of(base[2][2])
                if lo and hi:
                    k = max(0, hi[1] - lo[0])
            elif base[0] == "bytes":
                k = len(base[1])
            return (k, 255 if iv.is_bytes(base) or base[0] == "bytes" else None)
        if it[1] == "array" and it[2][0] in ("array", "bytes"):
            # [a, b, c, d].into_iter(): as many items as elements, each bounded by its own interval
            xs = [mk_int(x, "u8") if isinstance(x, int) else x for x in it[2][1]]
            his = [iv.of(x) for x in xs]
            m = max((h[1] for h in his), default=0) if all(h is not None and h[1] is not None for h in his) else None
            return (len(xs), m)
        if it[1] in ("copied", "cloned"):
            return self.iter_bounds(ev, st, iv, it[2])
        if it[1] == "map":
            k, m = self.iter_bounds(ev, st, iv, it[2])
            by_value = it[2][0] == "iter" and it[2][1] == "copied"
            # item bound through the closure: evaluate it on a symbolic element
            from models import apply_closure

            class _CI:
                pass
            ci = _CI()
            ci.ev, ci.st = ev, st.fork()
            ci.w = "?"
            by_value = by_value or (it[2][0] == "iter" and it[2][1] == "array")
            elem = (("sym", "elem", "u8") if by_value else ("ref", ("val", ("sym", "elem", "u8"), ()), False)) if m == 255 else None
            if elem is None:
                return (k, None)
            r = apply_closure(ci, it[3], [elem])
            if r is None:
                return (k, None)
            rr = Interval({}).of(r)
            return (k, rr[1] if rr else None)
        return (None, None)

    def discharge_range(self, ev, st, iv, base, lo, hi):
        ln = ("len", base) if base[0] != "bytes" else mk_int(len(base[1]), "usize")
        rl = iv.of(ln)
        rlo = iv.of(lo)
        rhi = iv.of(hi) if hi is not None else rl
        if rl and rlo and rhi and rlo[1] <= rhi[0] and rhi[1] <= rl[0]:
            return ("D1 constant range within the checked length %s" % list(rl), None)
        # D7 on both ends: lo <= hi and hi <= len, each as a non-negative canonical difference (sizes built from the same formulas)
        from mireval import len_term
        lt = len_term(base)
        if hi is not None and lt[0] != "len":
            r1 = self.nonneg_difference(hi, lo)
            r2 = self.nonneg_difference(lt, hi)
            if r1 and r2:
                return ("D7 range within the length: %s; %s" % (r1, r2), None)
        # D4: [4 .. data_bytes) of a Page's bytes
        return (None, "range %s..%s not shown within length %s" % (fmt_term(lo), fmt_term(hi) if hi else "", list(rl) if rl else "unknown"))


def rel_lt(st, a, b):
    """path constraints force a < b"""
    for x in variants_of(a):
        for y in variants_of(b):
            r = st.rel_get(x, y)
            if r <= frozenset("<"):
                return True
    return False


def variants_of(t):
    out = [t]
    s = strip_cast(t)
    if s != t:
        out.append(s)
    return out


def strip_cast(t):
    while t[0] == "app" and t[1].startswith("cast:") and len(t[2]) == 1:
        t = t[2][0]
    return t


def sig_of(t):
    """signature of a term without positions (keys must not contain line numbers)"""
    s = fmt_term(t)
    s = re.sub(r"'[^']*:\d+'", "@", s)
    s = re.sub(r"#\d+", "#", s)
    return s[:160]
