"""Path-sensitive abstract evaluator over the MIR facts (analyses A1/A2/A3/A8 share it).

Values are *terms* over the parameters; the evaluator never picks an input.  At a
`switchInt` on a non-constant term it forks and records the code's own test as a
constraint in a per-term finite-domain store; contradictory branches are pruned.
There is no solver.  Workspace callees are inlined; std/external callees get a
semantic model (models.py) or become opaque effects.  Loops are widened.
"""
import re
from facts import loc, strip_lifetimes

CMP_TRUE = {"Eq": frozenset("="), "Ne": frozenset("<>"), "Lt": frozenset("<"), "Le": frozenset("<="), "Gt": frozenset(">"), "Ge": frozenset(">=")}
TRUE = ("int", 1, "bool")
FALSE = ("int", 0, "bool")
UNIT = ("unit",)


# log level assumed by evaluators built without an explicit one (common.at_log_levels runs a rule set at both extremes)
DEFAULT_LOG_ON = False

# external callees whose function-valued argument a rule set analyses by itself (pattern -> the rule that does)
ANALYSED_SINKS = {r"^serial_core::SerialPort::reconfigure$": "C20.O1 runs the settings closure path by path and admits nothing but the five setters in it"}


class Unsupported(Exception):
    """A construct outside the evaluator's recognised idioms (reported as UNPROVEN)."""


class Infeasible(Exception):
    pass


def is_conc_int(t):
    return t[0] == "int"


def mk_int(v, ty):
    return ("int", v, ty)


def int_bits(ty):
    if ty == "bool":
        return 1, False
    m = re.match(r"^([iu])(\d+|size)$", ty)
    if not m:
        return None, False
    bits = 64 if m.group(2) == "size" else int(m.group(2))
    return bits, m.group(1) == "i"


def wrap(v, ty):
    bits, signed = int_bits(ty)
    if bits is None:
        return v
    v &= (1 << bits) - 1
    if signed and v >= 1 << (bits - 1):
        v -= 1 << bits
    return v


def adt_base(tys):
    """`flipdot_core::frame::Frame<'a>` -> `flipdot_core::frame::Frame`"""
    s = tys
    i = s.find("<")
    if i >= 0 and not s.startswith("<"):
        s = s[:i]
    return s


class NeedFork(Exception):
    """Raised while evaluating a statement: the value of `term` (one of `values`) must be known to go on (a constant table
    indexed by an enum discriminant).  step_block forks the state on it and resumes at the same statement."""

    def __init__(self, term, values):
        Exception.__init__(self, "fork on %r" % (term,))
        self.term = term
        self.values = values


class Activation:
    __slots__ = ("fid", "fn", "body", "block", "ret_dest", "ret_target", "visits", "cvisits", "title", "subst", "stmt")

    def __init__(self, fid, fn, body, block, ret_dest, ret_target, title=None):
        self.fid = fid
        self.fn = fn
        self.body = body
        self.block = block
        self.ret_dest = ret_dest
        self.ret_target = ret_target
        self.visits = {}
        self.cvisits = {}
        self.stmt = 0
        self.title = title
        self.subst = {}

    def copy(self):
        a = Activation(self.fid, self.fn, self.body, self.block, self.ret_dest, self.ret_target, self.title)
        a.visits = dict(self.visits)
        a.cvisits = dict(self.cvisits)
        a.stmt = self.stmt
        a.subst = self.subst
        return a


NATIVE_BODY = {"vars": [{"name": "acc", "place": {"local": 3, "proj": []}}], "blocks": [], "locals": [], "arg_count": 0}


class NativeActivation(Activation):
    """An iterator combinator that runs a closure per item (try_fold, try_for_each, for_each, fold over a table) executed
    on the evaluator's own stack, so that the closure may fork, return early or contain protocol-level calls.  Slots of
    its frame: 1 iterator, 2 closure, 3 accumulator, 4 Option<item> of the last next(), 5 the closure's result.
    block 0 = loop header (next), 1 = after next, 2 = after the closure."""
    __slots__ = ("native", "data")

    def __init__(self, fid, native, data, ret_dest, ret_target):
        site = data.get("w", "?").split(" ")[0]
        fn = {"path": "native:%s@%s" % (native, site), "name": "Iterator::%s" % native, "body": NATIVE_BODY, "span": None, "type_params": []}
        Activation.__init__(self, fid, fn, NATIVE_BODY, 0, ret_dest, ret_target, "native:" + native)
        self.native = native
        self.data = data

    def copy(self):
        a = NativeActivation(self.fid, self.native, dict(self.data), self.ret_dest, self.ret_target)
        a.block = self.block
        a.visits = dict(self.visits)
        a.cvisits = dict(self.cvisits)
        a.stmt = self.stmt
        a.subst = self.subst
        return a


class State:
    def __init__(self):
        self.frames = {}
        self.stack = []
        self.heap = {}
        self.cons = {}
        self.trace = ()
        self.decisions = ()
        self.next_fid = 0
        self.fresh = 0
        self.aux = {}

    def fork(self):
        s = State()
        s.frames = {k: dict(v) for k, v in self.frames.items()}
        s.stack = [a.copy() for a in self.stack]
        s.heap = dict(self.heap)
        s.cons = dict(self.cons)
        s.trace = self.trace
        s.decisions = self.decisions
        s.next_fid = self.next_fid
        s.fresh = self.fresh
        s.aux = dict(self.aux)
        return s

    JUDGED = ("assert_undecided", "unwrap", "sum", "index_range", "index_elem")

    def emit(self, ev):
        if ev[0] in State.JUDGED:
            # events that a later analysis must discharge carry the facts known *at that point* (not the end of the path)
            ev = ev + (frozenset(self.cons.items()),)
        self.trace = self.trace + (ev,)

    def new_sym(self, hint, ty):
        self.fresh += 1
        return ("sym", "%s#%d" % (hint, self.fresh), ty)

    # ---- constraint store --------------------------------------------------
    def dom(self, t):
        return self.cons.get(t)

    def constrain_in(self, t, vals):
        """t ∈ vals ; returns False if infeasible"""
        vals = frozenset(vals)
        if t[0] == "int":
            return t[1] in vals
        d = self.cons.get(t)
        if d is None:
            self.cons[t] = ("in", vals)
            return True
        if d[0] == "in":
            nv = d[1] & vals
        else:
            nv = vals - d[1]
        if not nv:
            return False
        self.cons[t] = ("in", nv)
        return True

    def constrain_out(self, t, vals):
        vals = frozenset(vals)
        if t[0] == "int":
            return t[1] not in vals
        d = self.cons.get(t)
        if d is None:
            self.cons[t] = ("out", vals)
            return True
        if d[0] == "in":
            nv = d[1] - vals
            if not nv:
                return False
            self.cons[t] = ("in", nv)
            return True
        self.cons[t] = ("out", d[1] | vals)
        return True

    # ---- orderings of pairs: key ('rel', a, b) with a<b in repr order, value subset of '<=>'
    @staticmethod
    def rel_key(a, b):
        if repr(a) <= repr(b):
            return ("rel", a, b), False
        return ("rel", b, a), True

    def rel_get(self, a, b):
        k, sw = self.rel_key(a, b)
        d = self.cons.get(k)
        r = d[1] if d is not None else frozenset("<=>")
        if sw:
            r = frozenset({"<": ">", ">": "<", "=": "="}[c] for c in r)
        return r

    def rel_meet(self, a, b, allowed):
        k, sw = self.rel_key(a, b)
        if sw:
            allowed = frozenset({"<": ">", ">": "<", "=": "="}[c] for c in allowed)
        d = self.cons.get(k)
        cur = d[1] if d is not None else frozenset("<=>")
        nv = cur & frozenset(allowed)
        if not nv:
            return False
        self.cons[k] = ("in", nv)
        return True

    def bnd_get(self, t):
        if t[0] == "int":
            return (t[1], t[1])
        d = self.cons.get(("bnd", t))
        lo, hi = (d[1], d[2]) if d is not None else (None, None)
        slo, shi = static_bounds(t)
        if slo is not None:
            lo = slo if lo is None else max(lo, slo)
        if shi is not None:
            hi = shi if hi is None else min(hi, shi)
        dd = self.cons.get(t)
        if dd is not None and dd[0] == "in" and dd[1] and all(isinstance(v, int) for v in dd[1]):
            lo = min(dd[1]) if lo is None else max(lo, min(dd[1]))
            hi = max(dd[1]) if hi is None else min(hi, max(dd[1]))
        return (lo, hi)

    def bnd_meet(self, t, lo=None, hi=None):
        if t[0] == "int":
            return (lo is None or t[1] >= lo) and (hi is None or t[1] <= hi)
        d = self.cons.get(("bnd", t))
        clo, chi = (d[1], d[2]) if d is not None else (None, None)
        if lo is not None:
            clo = lo if clo is None else max(clo, lo)
        if hi is not None:
            chi = hi if chi is None else min(chi, hi)
        if clo is not None and chi is not None and clo > chi:
            return False
        self.cons[("bnd", t)] = ("rng", clo, chi)
        return True

    def known(self, t):
        if t[0] == "int":
            return t[1]
        d = self.cons.get(t)
        if d is not None and d[0] == "in" and len(d[1]) == 1:
            return next(iter(d[1]))
        return None


class Path:
    """A finished path."""

    def __init__(self, kind, value, state, info=None):
        self.kind = kind          # return | panic | unreachable | loopback | stopped
        self.value = value
        self.heap = state.heap
        self.cons = state.cons
        self.trace = state.trace
        self.decisions = state.decisions
        self.state = state
        self.info = info


class Evaluator:
    MAX_PATHS = 20000
    MAX_DEPTH = 12

    def __init__(self, prog, models, log_on=None, hooks=None, no_inline=None):
        self.prog = prog
        self.models = models
        self.log_on = DEFAULT_LOG_ON if log_on is None else log_on
        self.hooks = hooks or {}
        self.no_inline = no_inline or (lambda fn: False)
        self.fnrefs = {}
        self._headers = {}
        self.widen_loops = True
        self.stats = {"paths": 0, "forks": 0, "inlined": set(), "opaque_calls": set(), "modelled": set(), "unreachable_paths": 0}

    # ---- ADT helpers ------------------------------------------------------------
    def adt(self, path):
        a = self.prog.adts.get(path)
        if a is None:
            a = self.prog.adts.get(adt_base(path))
        return a

    def variant_by_discr(self, adtpath, discr):
        a = self.adt(adtpath)
        if not a:
            return None
        for v in a["variants"]:
            dv = v["discr"] if v["discr"] is not None else v["idx"]
            if dv == discr:
                return v
        return None

    def discr_of(self, adtpath, vidx):
        a = self.adt(adtpath)
        if not a:
            return vidx
        for v in a["variants"]:
            if v["idx"] == vidx:
                return v["discr"] if v["discr"] is not None else vidx
        return vidx

    def mk_adt(self, path, vname, fields=()):
        a = self.adt(path)
        if a is None:
            raise Unsupported("unknown ADT %s" % path)
        for v in a["variants"]:
            if v["name"] == vname:
                return ("adt", a["path"], v["idx"], vname, tuple(fields))
        raise Unsupported("unknown variant %s::%s" % (path, vname))

    def materialize(self, term, tyj):
        """Expose one level of structure of a symbolic struct value."""
        if tyj.get("k") == "adt":
            a = self.adt(tyj["adt"])
            if a and a["kind"] == "struct" and a["local"]:
                v = a["variants"][0]
                fields = tuple(("proj", term, ("field", i, f["ty"]["s"])) for i, f in enumerate(v["fields"]))
                return ("adt", a["path"], 0, v["name"], fields)
        if tyj.get("k") == "tuple" and tyj["args"]:
            return ("tuple", tuple(("proj", term, ("field", i, t["s"])) for i, t in enumerate(tyj["args"])))
        return term

    # ---- memory -----------------------------------------------------------------
    def root_load(self, st, tgt):
        k = tgt[0]
        if k == "loc":
            fr = st.frames.get(tgt[1])
            if fr is None or tgt[2] not in fr:
                raise Unsupported("read of uninitialised local _%s" % (tgt[2],))
            return fr[tgt[2]]
        if k == "heap":
            return st.heap[tgt[1]]
        if k == "val":
            return tgt[1]
        raise Unsupported("bad target %r" % (tgt,))

    def load(self, st, tgt):
        v = self.root_load(st, tgt)
        for e in tgt[-1]:
            v = self.project(st, v, e)
        return v

    def project(self, st, v, e):
        k = e[0]
        if k == "field":
            if v[0] == "adt":
                return v[4][e[1]]
            if v[0] == "tuple":
                return v[1][e[1]]
            if v[0] == "closure":
                return v[2][e[1]]
            if e[1] == 0 and v[0] == "proj" and v[2][0] == "downcast" and len(v[2]) > 2 and v[2][2] in ("Some", "Ok"):
                return ("unwrap", v[1])    # the payload of a value known to be Some / Ok: one spelling for `match`, `let-else`, `?` and unwrap()
            if v[0] in ("sym", "proj", "app", "unwrap", "item"):
                return ("proj", v, e)
            raise Unsupported("field projection on %r" % (v[0],))
        if k == "downcast":
            if v[0] == "adt":
                if v[2] != e[1]:
                    raise Infeasible()
                return v
            return ("proj", v, e)
        if k == "deref":
            if v[0] == "ref":
                return self.load(st, v[1])
            if v[0] == "box":
                return v[1]
            return ("proj", v, e)
        if k == "index":
            if v[0] in ("array", "bytes") and e[1][0] != "int":
                ci_ = self.concrete_index(st, e[1])
                if ci_ is not None:
                    return index_term(v, ci_)
                dt, vals = self.finite_values(st, e[1])
                if dt is not None and vals:
                    raise NeedFork(dt, vals)      # a constant table indexed by an enum discriminant: one case per variant
            return index_term(v, e[1])
        if k == "cindex":
            if v[0] == "bytes" and not e[2]:
                return mk_int(v[1][e[1]], "u8")
            if v[0] == "array":
                return v[1][e[1]] if not e[2] else v[1][len(v[1]) - e[1]]
            if not e[2]:
                return index_term(v, mk_int(e[1], "usize"))     # `[a, ..]` patterns read element k like `s[k]`
            return ("proj", v, e)
        if k == "subslice":
            if v[0] == "bytes":
                b = v[1]
                return ("bytes", b[e[1]:len(b) - e[2]] if e[3] else b[e[1]:e[2]])
            return ("proj", v, e)
        if k == "rsub":
            # a mutable view `&mut v[lo..hi]` kept as a place (models.m_index): read as the sub-slice value
            return ("app", "subslice", (v, e[1], e[2] if e[2] is not None else len_term(v)))
        raise Unsupported("projection %r" % (e,))

    def view_of(self, st, tgt):
        """(target of the underlying vector, lo, hi) when `tgt` is a chain of `rsub` views over a place holding a byte sequence
        built in this function (a `seq` value); None otherwise"""
        projs = tgt[-1]
        n = len(projs)
        while n > 0 and projs[n - 1][0] == "rsub":
            n -= 1
        base_t = tgt[:-1] + (projs[:n],)
        if tgt[0] not in ("loc", "heap"):
            return None
        try:
            base = self.load(st, base_t)
        except Unsupported:
            return None
        if base[0] != "seq":
            return None
        lo, hi = mk_int(0, "usize"), len_term(base)

        def add(a, b):
            if a[0] == "int" and b[0] == "int":
                return mk_int(a[1] + b[1], "usize")
            if a[0] == "int" and a[1] == 0:
                return b
            if b[0] == "int" and b[1] == 0:
                return a
            return ("app", "Add", (a, b))
        for e in projs[n:]:
            nlo = add(lo, e[1])
            hi = add(lo, e[2]) if e[2] is not None else hi
            lo = nlo
        return (base_t, lo, hi)

    def write_overlay(self, st, tgt, content, where):
        """overwrite the range viewed by `tgt` (see view_of) with `content` = ('elems', (..)) | ('fill', value)"""
        vw = self.view_of(st, tgt)
        if vw is None:
            return False
        base_t, lo, hi = vw
        base = self.load(st, base_t)
        self.store(st, base_t, ("seq", base[1] + (("overlay", lo, hi, content),)), where)
        return True

    def update(self, st, v, projs, val, where):
        if not projs:
            return val
        e = projs[0]
        k = e[0]
        if k == "field":
            if v[0] == "adt":
                f = list(v[4])
                f[e[1]] = self.update(st, f[e[1]], projs[1:], val, where)
                return ("adt", v[1], v[2], v[3], tuple(f))
            if v[0] == "tuple":
                f = list(v[1])
                f[e[1]] = self.update(st, f[e[1]], projs[1:], val, where)
                return ("tuple", tuple(f))
            raise Unsupported("write into field of non-materialised value %r at %s" % (v[0], where))
        if k == "downcast":
            if v[0] == "adt" and v[2] == e[1]:
                return self.update(st, v, projs[1:], val, where)
            # a write through `(v as Variant).f` happens only on a path that matched that variant: expose it
            ap = None
            if v[0] == "app" and v[1] == "into_cow":
                ap = "alloc::borrow::Cow"
            else:
                ty = term_type(v) or ""
                ap = ty.split("<")[0].lstrip("&").replace("mut ", "").strip() or None
            a = self.adt(ap) if ap else None
            if a and a.get("kind") == "enum" and e[1] < len(a["variants"]):
                var = a["variants"][e[1]]
                base = ("proj", v, ("downcast", e[1], var["name"]))
                fields = tuple(("proj", base, ("field", i, f["ty"]["s"])) for i, f in enumerate(var["fields"]))
                return self.update(st, ("adt", a["path"], e[1], var["name"], fields), projs[1:], val, where)
            raise Unsupported("write through downcast of %r at %s" % (v[0], where))
        if k == "index":
            if v[0] == "bytes" and e[1][0] == "int" and not projs[1:] and val[0] == "int":
                b = bytearray(v[1])
                b[e[1][1]] = val[1]
                return ("bytes", bytes(b))
            raise Unsupported("indexed write into %r at %s" % (v[0], where))
        raise Unsupported("write through %r at %s" % (e, where))

    def store(self, st, tgt, val, where):
        k = tgt[0]
        projs = tgt[-1]
        if k == "loc":
            fr = st.frames[tgt[1]]
            if not projs:
                fr[tgt[2]] = val
            else:
                if tgt[2] not in fr:
                    raise Unsupported("partial write to uninitialised local at %s" % where)
                fr[tgt[2]] = self.update(st, fr[tgt[2]], projs, val, where)
        elif k == "heap":
            old = st.heap[tgt[1]]
            st.heap[tgt[1]] = self.update(st, old, projs, val, where)
            st.emit(("write", tgt[1], projs, val, where))
        elif k == "val":
            # write through a symbolic reference: recorded as an effect
            st.emit(("store", tgt[1], projs, val, where))
        else:
            raise Unsupported("bad store target")

    def place_target(self, st, fid, place):
        """Resolve a MIR place to a memory target (following derefs)."""
        tgt = ("loc", fid, place["local"], ())
        for e in place["proj"]:
            k = e["k"]
            if k == "deref":
                v = self.load(st, tgt)
                if v[0] == "ref":
                    tgt = v[1]
                elif v[0] == "box":
                    tgt = ("val", v[1], ())
                else:
                    tgt = ("val", ("proj", v, ("deref",)), ())
                continue
            if k == "field":
                el = ("field", e["i"], e["ty"])
            elif k == "downcast":
                el = ("downcast", e["variant"], e["name"])
            elif k == "index":
                el = ("index", self.load(st, ("loc", fid, e["local"], ())))
            elif k == "cindex":
                el = ("cindex", e["offset"], e["from_end"])
            elif k == "subslice":
                el = ("subslice", e["from"], e["to"], e["from_end"])
            else:
                raise Unsupported("place projection %s" % k)
            tgt = tgt[:-1] + (tgt[-1] + (el,),)
        return tgt

    def read_place(self, st, fid, place):
        return self.load(st, self.place_target(st, fid, place))

    # ---- operands / rvalues -----------------------------------------------------
    def fn_value(self, fnj):
        r = fnj.get("resolved")
        key = (fnj["path"], tuple(a["s"] for a in fnj["args"]), r["path"] if r else None)
        self.fnrefs[key] = fnj
        return ("fn", key)

    def const_term(self, st, act, c):
        if "fn" in c:
            return self.fn_value(c["fn"])
        ty = c["ty"]
        if "promoted" in c:
            return self.eval_promoted(st, act, c["promoted"], c.get("promoted_of"))
        v = c.get("val")
        if c.get("unevaluated") in ("core::time::Duration::ZERO",):
            return ("app", "duration_ms", (mk_int(0, "u64"),))      # std: Duration::ZERO is a zero-length duration
        if c.get("unevaluated_path") and ty["k"] in ("adt", "array", "tuple") and (v is None or v["k"] in ("indirect", "ptr")):
            r = self.eval_const_item(c["unevaluated_path"])
            if r is not None:
                return r
        if v is None:
            return ("sym", "const:" + c.get("unevaluated", ty["s"]), ty["s"])
        k = v["k"]
        if k == "int":
            if ty["k"] == "bool":
                return mk_int(v["val"], "bool")
            if ty["k"] == "int" or ty["k"] == "char":
                return mk_int(v["val"], ty["s"])
            if ty["k"] == "adt":
                # scalar-encoded ADT constant (e.g. a field-less enum value)
                a = self.adt(ty["adt"])
                if a and a["kind"] == "enum" and all(not vv["fields"] for vv in a["variants"]):
                    vv = self.variant_by_discr(ty["adt"], v["val"])
                    if vv:
                        return ("adt", a["path"], vv["idx"], vv["name"], ())
                if a and a["kind"] == "struct" and len(a["variants"][0]["fields"]) == 1:
                    f = a["variants"][0]["fields"][0]
                    if f["ty"]["k"] == "int":
                        return ("adt", a["path"], 0, a["variants"][0]["name"], (mk_int(v["val"], f["ty"]["s"]),))
            return ("sym", "constbits:%d:%s" % (v["val"], ty["s"]), ty["s"])
        if k == "zst":
            if ty["k"] == "tuple":
                return UNIT
            if ty["k"] == "closure":
                return ("closure", ty["def"], ())
            if ty["k"] == "adt":
                a = self.adt(ty["adt"])
                if a and len(a["variants"]) == 1 and not a["variants"][0]["fields"]:
                    return ("adt", a["path"], 0, a["variants"][0]["name"], ())
            return ("zst", ty["s"])
        if k in ("ptr", "slice"):
            to = v["to"]
            if to.get("k") == "alloc" and not to["ptrs"]:
                b = bytes(to["bytes"])[to.get("offset", 0):]
                if k == "slice":
                    b = b[:v["len"]]
                inner = ty.get("inner", {})
                if inner.get("k") in ("slice", "array", "str") or k == "slice":
                    if inner.get("k") == "array" and inner.get("len") is not None:
                        b = b[:inner["len"]]
                    return ("ref", ("val", ("bytes", b), ()), False)
                if inner.get("k") == "int" and inner.get("bits") == 8:
                    return ("ref", ("val", mk_int(b[0], inner["s"]), ()), False)
            if to.get("k") == "static":
                if to.get("path") and not to.get("mutable"):
                    r = self.eval_const_item(to["path"])        # an immutable static (lookup table): its initialiser's value
                    if r is not None:
                        return ("ref", ("val", r, ()), False)
                return ("ref", ("val", ("sym", "static:" + to["name"], ty["s"]), ()), False)
            return ("ref", ("val", ("sym", "constalloc:%s@%s" % (ty["s"], id(c)), ty["s"]), ()), False)
        if k == "indirect":
            to = v["to"]
            if to.get("k") == "alloc" and ty["k"] == "ref" and ty["inner"].get("k") in ("slice", "str") and len(to["ptrs"]) == 1 and to["ptrs"][0][0] == to.get("offset", 0):
                # a fat pointer stored in memory: (data pointer, length)
                off = to.get("offset", 0)
                raw = bytes(to["bytes"])
                ln = int.from_bytes(raw[off + 8:off + 16], "little")
                inner = to["ptrs"][0][1]
                if inner.get("k") == "alloc" and not inner["ptrs"]:
                    b = bytes(inner["bytes"])[inner.get("offset", 0):][:ln]
                    return ("ref", ("val", ("bytes", b), ()), False)
            if to.get("k") == "alloc" and not to["ptrs"] and ty["k"] == "array" and ty["inner"].get("bits") == 8:
                return ("bytes", bytes(to["bytes"])[to.get("offset", 0):][:ty["len"]])
            return ("sym", "constval:%s" % ty["s"], ty["s"])
        return ("sym", "const?:" + ty["s"], ty["s"])

    def eval_const_item(self, path):
        """value of a named constant, by evaluating its initialiser (single path, no parameters)"""
        cache = self.__dict__.setdefault("_const_cache", {})
        if path in cache:
            return cache[path]
        fn = self.prog.fns.get(path)
        r = None
        if fn is not None and fn["body"]["arg_count"] == 0:
            sub = Evaluator(self.prog, self.models, self.log_on, {}, self.no_inline)
            sub.fnrefs = self.fnrefs
            try:
                paths = [p for p in sub.run_body(fn, fn["body"], [], title="const") if p.kind == "return"]
                if len(paths) == 1:
                    r = sub.detach(paths[0].state, paths[0].value)
            except Unsupported:
                r = None
        cache[path] = r
        return r

    def eval_promoted(self, st, act, idx, of):
        fn = act.fn
        if of and of != fn["path"]:
            fn = self.prog.fns.get(of)
            if fn is None:
                raise Unsupported("promoted of unknown fn %s" % of)
        body = None
        for p in fn["promoted"]:
            if p["idx"] == idx:
                body = p["body"]
        if body is None:
            raise Unsupported("missing promoted body")
        sub = Evaluator(self.prog, self.models, self.log_on, {}, self.no_inline)
        sub.fnrefs = self.fnrefs
        paths = sub.run_body(fn, body, [], title="promoted")
        rets = [p for p in paths if p.kind == "return"]
        if len(rets) != 1:
            raise Unsupported("promoted body with %d paths" % len(rets))
        v = rets[0].value
        # detach from the promoted frame
        return self.detach(rets[0].state, v)

    def detach(self, st, v):
        if v[0] == "ref":
            inner = self.load(st, v[1])
            return ("ref", ("val", self.detach(st, inner), ()), v[2])
        if v[0] == "adt":
            return ("adt", v[1], v[2], v[3], tuple(self.detach(st, f) for f in v[4]))
        if v[0] == "tuple":
            return ("tuple", tuple(self.detach(st, f) for f in v[1]))
        return v

    def operand(self, st, act, o):
        if o["op"] in ("copy", "move"):
            return self.read_place(st, act.fid, o["place"])
        if o["op"] == "const":
            return self.const_term(st, act, o)
        raise Unsupported("operand %s" % o.get("s"))

    def operand_ty(self, act, o):
        if o["op"] == "const":
            return o["ty"]["s"]
        return o["place"]["ty"]

    def binop(self, st, op, a, b, ty_a):
        ovf = op.endswith("WithOverflow")
        base = op[:-len("WithOverflow")] if ovf else op
        unchecked = base.endswith("Unchecked")
        if unchecked:
            base = base[:-len("Unchecked")]
        if a[0] == "int" and b[0] == "int":
            x, y = a[1], b[1]
            ty = a[2]
            cmpops = {"Eq": x == y, "Ne": x != y, "Lt": x < y, "Le": x <= y, "Gt": x > y, "Ge": x >= y}
            if base in cmpops:
                return mk_int(int(cmpops[base]), "bool")
            r = None
            if base == "Add":
                r = x + y
            elif base == "Sub":
                r = x - y
            elif base == "Mul":
                r = x * y
            elif base == "Div" and y != 0:
                r = abs(x) // abs(y) * (1 if (x >= 0) == (y >= 0) else -1)
            elif base == "Rem" and y != 0:
                r = abs(x) % abs(y) * (1 if x >= 0 else -1)
            elif base == "BitAnd":
                r = x & y
            elif base == "BitOr":
                r = x | y
            elif base == "BitXor":
                r = x ^ y
            elif base == "Shl":
                r = x << y
            elif base == "Shr":
                r = x >> y
            if r is not None:
                w = wrap(r, ty)
                if ovf:
                    return ("tuple", (mk_int(w, ty), mk_int(int(w != r), "bool")))
                return mk_int(w, ty)
        if ovf:
            return ("tuple", (("app", base, (a, b)), ("app", base + "Ovf", (a, b))))
        if base in ("Eq", "Ne") and a == b:
            return TRUE if base == "Eq" else FALSE
        if base in ("Eq", "Ne") and a[0] != "int" and b[0] != "int" and repr(a) > repr(b):
            a, b = b, a        # one spelling for `x == y` and `y == x`
        if base in ("Eq", "Ne") and a[0] == "int" and b[0] != "int":
            a, b = b, a
        if base in ("Eq", "Ne") and b[0] == "int" and a[0] == "app" and a[1] == "Sub" and a[2][1][0] == "int" and a[2][0][0] == "len":
            # len(s) - c1 == c2  <=>  len(s) == c1 + c2   (the subtraction itself is checked where it is made)
            b = mk_int(a[2][1][1] + b[1], b[2])
            a = a[2][0]
        return ("app", base, (a, b))

    def cast(self, st, kind, x, ty):
        tys = ty["s"]
        if kind.startswith("IntToInt"):
            if x[0] == "int":
                return mk_int(wrap(x[1], tys), tys)
            return ("app", "cast:" + tys, (x,))
        if kind.startswith("PointerCoercion") or kind.startswith("PtrToPtr") or kind.startswith("Transmute") or kind.startswith("Subtype"):
            return x
        return ("app", "cast:" + tys, (x,))

    def rvalue(self, st, act, r, where):
        k = r["rv"]
        if k == "use":
            return self.operand(st, act, r["x"])
        if k == "ref":
            tgt = self.place_target(st, act.fid, r["place"])
            if any(e[0] == "index" and e[1][0] != "int" for e in tgt[-1]):
                # a reference into a constant table indexed by an enum discriminant: decide the index now (NeedFork), the
                # reference itself is only dereferenced later, outside any statement
                try:
                    self.load(st, tgt)
                except (Unsupported, Infeasible):
                    pass
                ci_ = [self.concrete_index(st, e[1]) if e[0] == "index" else None for e in tgt[-1]]
                if any(c is not None for c in ci_):
                    tgt = tgt[:-1] + (tuple(("index", c) if c is not None else e for e, c in zip(tgt[-1], ci_)),)
            return ("ref", tgt, r["mut"])
        if k == "rawptr":
            return ("ref", self.place_target(st, act.fid, r["place"]), True)
        if k == "cast":
            return self.cast(st, r["kind"], self.operand(st, act, r["x"]), r["ty"])
        if k == "binop":
            a = self.operand(st, act, r["a"])
            b = self.operand(st, act, r["b"])
            return self.binop(st, r["o"], a, b, self.operand_ty(act, r["a"]))
        if k == "unop":
            a = self.operand(st, act, r["a"])
            o = r["o"]
            if o == "Not":
                if a[0] == "int":
                    if a[2] == "bool":
                        return mk_int(1 - a[1], "bool")
                    return mk_int(wrap(~a[1], a[2]), a[2])
                return ("app", "Not", (a,))
            if o == "Neg":
                if a[0] == "int":
                    return mk_int(wrap(-a[1], a[2]), a[2])
                return ("app", "Neg", (a,))
            if o == "PtrMetadata":
                v = a
                if v[0] == "ref":
                    v = self.load(st, v[1])
                return len_term(v)
            return ("app", o, (a,))
        if k == "discr":
            v = self.read_place(st, act.fid, r["place"])
            if v[0] == "adt":
                return mk_int(self.discr_of(v[1], v[2]), "isize")
            return ("discr", v)
        if k == "aggregate":
            ops = tuple(self.operand(st, act, o) for o in r["ops"])
            agg = r["agg"]
            if agg == "adt":
                if st.aux.get("watch_adts") and r["adt"] in st.aux["watch_adts"]:
                    st.emit(("construct", r["adt"], r["vname"], ops, where, act.fn["path"]))
                return ("adt", r["adt"], r["variant"], r["vname"], ops)
            if agg == "tuple":
                if not ops:
                    return UNIT
                return ("tuple", ops)
            if agg == "array":
                if all(o[0] == "int" for o in ops) and r["elem"].get("bits") == 8:
                    return ("bytes", bytes(o[1] & 0xFF for o in ops))
                return ("array", ops)
            if agg == "closure":
                return ("closure", r["def"], ops)
            raise Unsupported("aggregate %s" % r.get("s"))
        if k == "repeat":
            x = self.operand(st, act, r["x"])
            if x[0] == "int" and r["count"] is not None and r["count"] <= 4096:
                return ("bytes", bytes([x[1] & 0xFF]) * r["count"])
            return ("app", "repeat", (x, mk_int(r["count"] or 0, "usize")))
        raise Unsupported("rvalue %s at %s" % (r.get("s", k), where))

    # ---- control ------------------------------------------------------------------
    def loop_headers(self, body):
        key = id(body)
        if key in self._headers:
            return self._headers[key]
        succ = {}
        for b in body["blocks"]:
            if b["cleanup"]:
                continue
            t = b["term"]
            k = t["t"]
            s = []
            if k == "goto":
                s = [t["target"]]
            elif k == "switch":
                s = [x[1] for x in t["arms"]] + [t["otherwise"]]
            elif k in ("call", "assert", "drop"):
                if t.get("target") is not None:
                    s = [t["target"]]
            succ[b["i"]] = s
        headers = set()
        color = {}
        stack = [(0, iter(succ.get(0, [])))]
        color[0] = 1
        while stack:
            n, it = stack[-1]
            adv = False
            for m in it:
                if color.get(m, 0) == 0:
                    color[m] = 1
                    stack.append((m, iter(succ.get(m, []))))
                    adv = True
                    break
                elif color[m] == 1:
                    headers.add(m)
            if not adv:
                color[n] = 2
                stack.pop()
        self._headers[key] = headers
        return headers

    def run(self, fn, args=None, heap=None, setup=None):
        """Enumerate all paths of `fn` from symbolic parameters."""
        body = fn["body"]
        st = State()
        argv = []
        names = {}
        for v in body["vars"]:
            p = v["place"]
            if not p["proj"] and 1 <= p["local"] <= body["arg_count"] and p["local"] not in names:
                names[p["local"]] = v["name"]
        for i in range(1, body["arg_count"] + 1):
            lt = body["locals"][i]["ty"]
            nm = names.get(i, "arg%d" % i)
            if args and nm in args:
                argv.append(args[nm])
                continue
            if lt["k"] == "ref":
                cell = "*" + nm
                inner = lt["inner"]
                st.heap[cell] = self.materialize(("sym", cell, inner["s"]), inner)
                argv.append(("ref", ("heap", cell, ()), lt["mut"]))
            else:
                argv.append(self.materialize(("sym", nm, lt["s"]), lt) if lt["k"] == "tuple" else ("sym", nm, lt["s"]))
        if heap:
            st.heap.update(heap)
        if setup:
            setup(st)
        return self.run_body(fn, body, argv, st=st)

    def run_body(self, fn, body, argv, st=None, title=None):
        st = st or State()
        self.push(st, fn, body, argv, None, None, title)
        return self.explore(st)

    def push(self, st, fn, body, argv, ret_dest, ret_target, title=None, targs=None):
        if len(st.stack) >= self.MAX_DEPTH:
            raise Unsupported("inlining depth exceeded at %s" % fn["name"])
        fid = st.next_fid
        st.next_fid += 1
        st.frames[fid] = {i + 1: v for i, v in enumerate(argv)}
        a = Activation(fid, fn, body, 0, ret_dest, ret_target, title)
        names = fn.get("type_params") or []
        if targs and names:
            # type arguments come last-aligned with the callee's own (and parents') type parameters
            a.subst = dict(zip(names[-len(targs):] if len(targs) < len(names) else names, targs[-len(names):]))
        st.stack.append(a)

    def explore(self, st0):
        done = []
        work = [st0]
        while work:
            st = work.pop()
            try:
                res = self.step_block(st)
            except Infeasible:
                continue
            for r in res:
                if isinstance(r, Path):
                    if r.kind == "unreachable":
                        self.stats["unreachable_paths"] += 1
                        continue
                    done.append(r)
                    if len(done) > self.MAX_PATHS:
                        raise Unsupported("path explosion (> %d paths)" % self.MAX_PATHS)
                else:
                    work.append(r)
        self.stats["paths"] += len(done)
        return done

    def where(self, act, span):
        return "%s (%s)" % (loc(span), act.fn["name"] if not act.title else act.fn["name"] + "::" + act.title)

    # ---- native iterator combinators ---------------------------------------------------
    def push_native(self, ci, kind, it, f, acc):
        st = ci.st
        if len(st.stack) >= self.MAX_DEPTH:
            raise Unsupported("inlining depth exceeded at Iterator::%s" % kind)
        fid = st.next_fid
        st.next_fid += 1
        st.frames[fid] = {1: it, 2: f, 3: acc}
        a = NativeActivation(fid, kind, {"w": ci.w, "rty": ci._sub(ci.dest["ty"])}, ci.dest, ci.target)
        st.stack.append(a)
        return [st]

    def native_return(self, st, act, v, w):
        st.stack.pop()
        if not st.stack:
            return [Path("return", v, st)]
        caller = st.stack[-1]
        self.store(st, self.place_target(st, caller.fid, act.ret_dest), v, w)
        caller.block = act.ret_target
        return [st]

    def native_step(self, st, act):
        from models import m_iter_next, concrete_step, ok, some, apply_closure
        fid = act.fid
        fr = st.frames[fid]
        kind = act.native
        w = act.data["w"]
        rty = act.data.get("rty", "")
        slot = lambda i: {"local": i, "proj": [], "ty": "?"}
        if act.block == 0:
            class _C:
                pass
            c0 = _C()
            c0.ev, c0.st = self, st
            if concrete_step(c0, fr[1]) is None:
                r = self.arrive_loop_header(st, act)
                if r is not None:
                    return [r]
            else:
                n = act.cvisits.get(0, 0) + 1
                act.cvisits[0] = n
                if n > 600:
                    raise Unsupported("Iterator::%s: more than 600 concrete iterations" % kind)
            fnj = {"name": "core::iter::traits::iterator::Iterator::next", "path": "core::iter::traits::iterator::Iterator::next", "args": [], "item": "next", "trait": "core::iter::traits::iterator::Iterator"}
            ci = CallInfo(self, st, act, fnj, fnj["name"], [("ref", ("loc", fid, 1, ()), True)], slot(4), 1, w)
            nx = m_iter_next(ci)
            if nx is None:
                raise Unsupported("Iterator::%s over %s: no model of its next()" % (kind, fmt_term(fr[1])[:80]))
            return self.apply_results(ci, nx)
        if act.block == 1:
            opt = fr[4]
            if not (opt[0] == "adt" and opt[3] in ("Some", "None")):
                raise Unsupported("Iterator::%s: next() gave %s" % (kind, fmt_term(opt)[:60]))
            if opt[3] == "None":
                acc = fr[3]
                if kind in ("for_each",):
                    v = UNIT
                elif kind == "fold":
                    v = acc
                elif kind == "try_for_each":
                    v = self.try_output(rty, UNIT)
                else:
                    v = self.try_output(rty, acc)
                return self.native_return(st, act, v, w)
            x = opt[4][0]
            args = [fr[3], x] if kind in ("fold", "try_fold") else [x]
            f = fr[2]
            fv = f
            while fv[0] == "ref":
                fv = self.load(st, fv[1])
            if fv[0] == "closure" and fv[1] in self.prog.fns:
                cfn = self.prog.fns[fv[1]]
                selfarg = fv
                if cfn["body"]["locals"][1]["ty"]["k"] == "ref":
                    selfarg = f if f[0] == "ref" else ("ref", ("loc", fid, 2, ()), True)
                self.stats["inlined"].add(cfn["name"])
                act.block = 2
                self.push(st, cfn, cfn["body"], [selfarg] + args, slot(5), 2)
                return [st]
            if fv[0] == "fn":
                return self.call_fn(st, act, self.fnrefs[fv[1]], args, slot(5), 2, w)
            raise Unsupported("Iterator::%s with a callable %s" % (kind, fmt_term(fv)[:40]))
        if act.block == 2:
            r = fr[5]
            if kind == "for_each":
                act.block = 0
                return [st]
            if kind == "fold":
                fr[3] = r
                act.block = 0
                return [st]
            # Try: Continue on Ok / Some / ControlFlow::Continue, otherwise the combinator returns the closure's result
            if r[0] == "adt":
                if r[3] in ("Ok", "Some", "Continue"):
                    if kind == "try_fold":
                        fr[3] = r[4][0]
                    act.block = 0
                    return [st]
                return self.native_return(st, act, r, w)
            d = ("discr", r)
            good = 1 if rty.startswith("core::option::Option") else 0
            out = []
            for val in (good, 1 - good):
                s2 = st.fork()
                if not s2.constrain_in(d, [val]):
                    continue
                s2.decisions = s2.decisions + ((d, val, w),)
                a2 = s2.stack[-1]
                if val == good:
                    if kind == "try_fold":
                        s2.frames[fid][3] = ("unwrap", r)
                    a2.block = 0
                    out.append(s2)
                else:
                    out.extend(self.native_return(s2, a2, r, w))
            return out
        raise Unsupported("native frame in block %r" % (act.block,))

    def try_output(self, rty, v):
        from models import ok, some
        if rty.startswith("core::option::Option"):
            return some(self, v)
        if rty.startswith("core::result::Result"):
            return ok(self, v)
        raise Unsupported("Try::from_output for %s" % rty[:40])

    def step_block(self, st):
        """Execute one basic block of the top activation; returns successor states / finished paths."""
        act = st.stack[-1]
        if isinstance(act, NativeActivation):
            return self.native_step(st, act)
        body = act.body
        blk = body["blocks"][act.block]
        fid = act.fid
        # loop widening
        if act.block in self.loop_headers(body):
            if self.widen_loops:
                r = self.arrive_loop_header(st, act)
                if r is not None:
                    return [r]
            else:
                n = act.visits.get(act.block, 0) + 1
                act.visits[act.block] = n
                if n > 6:
                    raise Unsupported("loop at bb%d of %s makes no observable progress" % (act.block, act.fn["name"]))
        start = act.stmt
        act.stmt = 0
        for si, s in enumerate(blk["stmts"]):
            if si < start:
                continue        # resuming after a fork raised by a later statement of this block
            if s["st"] == "assign":
                w = self.where(act, s.get("span"))
                try:
                    v = self.rvalue(st, act, s["rvalue"], w)
                    self.store(st, self.place_target(st, fid, s["place"]), v, w)
                except NeedFork as nf:
                    return self.fork_on(st, act, nf, si, w)
            elif s["st"] == "setdiscr":
                raise Unsupported("SetDiscriminant")
            else:
                raise Unsupported("statement %s" % s.get("s"))
        t = blk["term"]
        k = t["t"]
        w = self.where(act, t.get("span"))
        try:
            return self.step_terminator(st, act, blk, t, k, w, fid)
        except NeedFork as nf:
            return self.fork_on(st, act, nf, len(blk["stmts"]), w)

    def fork_on(self, st, act, nf, si, w):
        out = []
        for val in nf.values:
            s2 = st.fork()
            if not s2.constrain_in(nf.term, [val]):
                continue
            s2.decisions = s2.decisions + ((nf.term, val, w),)
            s2.stack[-1].stmt = si
            out.append(s2)
        return out

    def finite_values(self, st, t):
        """the finitely many values an index term can take when it is (a cast of) an enum discriminant, else None"""
        while t[0] == "app" and t[1].startswith("cast:") and len(t[2]) == 1:
            t = t[2][0]
        if t[0] != "discr":
            return None, None
        d = st.cons.get(t)
        if d is not None and d[0] == "in":
            return t, sorted(d[1])
        ty = term_type(t[1])
        a = self.adt(ty.split("<")[0]) if ty else None
        if a is None or a["kind"] != "enum" or len(a["variants"]) > 32:
            return None, None
        vals = sorted(self.discr_of(a["path"], v["idx"]) for v in a["variants"])
        if d is not None and d[0] == "out":
            vals = [x for x in vals if x not in d[1]]
        return t, vals

    def concrete_index(self, st, t):
        """the integer value of an index term the store determines (through casts of a known discriminant)"""
        if t[0] == "int":
            return t
        kn = st.known(t)
        if kn is not None:
            return mk_int(kn, "usize")
        if t[0] == "app" and t[1].startswith("cast:") and len(t[2]) == 1:
            r = self.concrete_index(st, t[2][0])
            if r is not None:
                return mk_int(r[1], t[1][5:])
        return None

    def step_terminator(self, st, act, blk, t, k, w, fid):
        if k == "goto":
            act.block = t["target"]
            return [st]
        if k == "drop":
            dropped = self.drop_fns(act, t["place"].get("ty") or "")
            act.block = t["target"]
            if not dropped:
                return [st]
            if len(dropped) > 1 or dropped[0][0]:
                raise Unsupported("drop of %s runs more than one Drop impl (or one inside a field)" % t["place"].get("ty"))
            # a value of a workspace type with `impl Drop` goes out of scope here: Drop::drop(&mut value) runs
            dfn = dropped[0][1]
            self.stats["inlined"].add(dfn["name"])
            self.push(st, dfn, dfn["body"], [("ref", self.place_target(st, fid, t["place"]), True)], {"local": 10 ** 6, "proj": [], "ty": "()"}, t["target"])
            return [st]
        if k == "assert":
            c = self.operand(st, act, t["cond"])
            kn = self.decide(st, c)
            if kn is not None and bool(kn) == t["expected"]:
                st.emit(("assert_decided", t["msg"], c, w))
            if kn is not None and bool(kn) != t["expected"]:
                st.emit(("panic", "assert:" + t["msg"], (), w))
                return [Path("panic", None, st, "assert:" + t["msg"])]
            if kn is None:
                # continue on the success edge and remember the fact; A4 judges the panic edge
                st.emit(("assert_undecided", t["msg"], c, w))
                self.assume(st, c, 1 if t["expected"] else 0)
            act.block = t["target"]
            return [st]
        if k == "return":
            v = st.frames[fid].get(0, UNIT)
            st.stack.pop()
            if not st.stack:
                return [Path("return", v, st)]
            # keep callee frame (references into it may escape, e.g. promoted temps)
            caller = st.stack[-1]
            self.store(st, self.place_target(st, caller.fid, act.ret_dest), v, w)
            caller.block = act.ret_target
            return [st]
        if k == "unreachable":
            return [Path("unreachable", None, st)]
        if k == "switch":
            d = self.operand(st, act, t["discr"])
            return self.do_switch(st, act, d, t, w)
        if k == "call":
            return self.do_call(st, act, t, w)
        if k in ("resume", "terminate"):
            return [Path("panic", None, st, k)]
        raise Unsupported("terminator %s at %s" % (t.get("s", k), w))

    def drop_fns(self, act, ty, depth=0):
        """[(field path, Drop::drop fn)] the drop glue of type `ty` runs, for workspace types (own impl first, then fields)"""
        di = getattr(self.prog, "drop_impls", None)
        if not di or not ty:
            return []
        sub_ = act.subst or {}
        ty = sub_.get(ty, ty)
        if not any(name.split("::")[-1] in ty for name in di):
            return []
        base = ty.split("<")[0].lstrip("&").strip()
        out = []
        if base in di:
            out.append(((), di[base]))
        a = self.prog.adts.get(base)
        if a is None:
            if not out:
                raise Unsupported("drop of %s, which contains a type with a Drop impl" % ty)
            return out
        if depth < 3:
            for v in a["variants"]:
                for i, f in enumerate(v["fields"]):
                    inner = self.drop_fns(act, f["ty"].get("s", ""), depth + 1)
                    if inner and a["kind"] != "struct":
                        raise Unsupported("drop of enum %s holding a type with a Drop impl" % ty)
                    out.extend(((i,) + p, fn_) for p, fn_ in inner)
        return out

    def concrete_loop(self, st, act, h):
        if isinstance(act, NativeActivation):
            return False
        t = act.body["blocks"][h]["term"]
        if t["t"] != "call" or len(t["args"]) != 1:
            return False
        try:
            f = self.operand(st, act, t["func"])
            if f[0] != "fn":
                return False
            fj = self.fnrefs[f[1]]
            if (fj.get("item") or (fj.get("resolved") or fj)["name"].split("::")[-1]) != "next":
                return False
            a = self.operand(st, act, t["args"][0])
            if a[0] != "ref":
                return False
            from models import concrete_step

            class _CI:
                pass
            c = _CI()
            c.ev, c.st = self, st
            return concrete_step(c, self.load(st, a[1])) is not None
        except (Unsupported, Infeasible, KeyError):
            return False

    def arrive_loop_header(self, st, act):
        h = act.block
        fr = st.frames[act.fid]
        snap = act.visits.get(h)

        def wname(kind, key):
            return ("sym", "loop@bb%d:%s:%s" % (h, kind, key), "?")

        if self.concrete_loop(st, act, h):
            # `for` over an iterator of known small length: executed iteration by iteration (models.concrete_step)
            n = act.cvisits.get(h, 0) + 1
            act.cvisits[h] = n
            if n > 600:
                raise Unsupported("loop at bb%d of %s: more than 600 concrete iterations" % (h, act.fn["name"]))
            return None
        def outer_frames():
            # locals of the other live frames: a loop in an inlined callee (or a closure run by a native combinator) changes its
            # caller's locals through the &mut references it was given
            return {fid: dict(f2) for fid, f2 in st.frames.items() if fid != act.fid}

        if snap is None:
            act.visits[h] = (dict(fr), dict(st.heap), 1, len(act.visits), outer_frames())
            act.cvisits[("keys", h)] = frozenset(st.cons.keys())
            return None
        old_fr, old_heap, n, order = snap[:4]
        old_outer = snap[4] if len(snap) > 4 else {}
        # a new iteration: the generic item terms ("item", iterator, site) now stand for another element, so what was learned
        # about them during the previous iteration is forgotten (facts that held before the loop started are about other,
        # unchanged items and stay)
        keep = act.cvisits.get(("keys", h), frozenset())
        for t in [t for t in st.cons if t not in keep and has_item(t)]:
            del st.cons[t]
        # loops nested inside this one start afresh in the next iteration
        for h2 in [k for k, v in act.visits.items() if v[3] > order]:
            del act.visits[h2]
            for k2 in [k for k in act.cvisits if isinstance(k, tuple) and k[0] in ("idle", "keys") and k[1] == h2]:
                del act.cvisits[k2]
        changed = False
        widened = []
        for l, v in list(fr.items()):
            if l in old_fr and old_fr[l] == v and v[0] == "seq":
                # an iteration in which this vector did not grow: a summary of it may no longer claim "one group per item"
                act.cvisits[("idle", h, l)] = True
                if any(i[0] == "mapped" for i in v[1]):
                    fr[l] = ("seq", tuple(("mapped_some",) + i[1:] if i[0] == "mapped" else i for i in v[1]))
                    changed = True
                continue
            if l in old_fr and old_fr[l] != v:
                sm = seq_summary(old_fr[l], v, act.cvisits.get(("idle", h, l), False))
                if sm is not None:
                    # a vector that grows by the same group of pushes in every iteration: prefix ++ (group)*
                    if sm != old_fr[l]:
                        changed = True
                    fr[l] = sm
                    continue
                wv = wname("local", "_%d" % l)
                if old_fr[l] == wv and mentions(v, {wv}):
                    # an accumulator: its new value is a function of its own value at the loop header and of this iteration's
                    # item.  Remember the step; if it is the same at the fixpoint, the exit value is fold(iterator, init, step).
                    key = ("fold", h, l)
                    prev = act.cvisits.get(key)
                    if prev is not None:
                        act.cvisits[key] = (prev[0], v if prev[1] in (None, v) else False, wv, prev[3])
                elif n == 1 and old_fr[l] != wv:
                    act.cvisits[("fold", h, l)] = (old_fr[l], None, wv, v)    # value before / after the first iteration
                if v != wv:
                    fr[l] = wv
                widened.append("_%d" % l)
                if old_fr[l] != wv:
                    changed = True
        for fid2, old2 in old_outer.items():
            fr2 = st.frames.get(fid2)
            if fr2 is None:
                continue
            for l, v in list(fr2.items()):
                if l not in old2:
                    continue
                lk = "f%d_%d" % (fid2, l)
                if old2[l] == v:
                    if v[0] == "seq":
                        act.cvisits[("idle", h, lk)] = True
                        if any(i[0] == "mapped" for i in v[1]):
                            fr2[l] = ("seq", tuple(("mapped_some",) + i[1:] if i[0] == "mapped" else i for i in v[1]))
                            changed = True
                    continue
                sm = seq_summary(old2[l], v, act.cvisits.get(("idle", h, lk), False))
                if sm is not None:
                    if sm != old2[l]:
                        changed = True
                    fr2[l] = sm
                    continue
                wv = wname("local", lk)
                if v != wv:
                    fr2[l] = wv
                widened.append(lk)
                if old2[l] != wv:
                    changed = True
        for c, v in list(st.heap.items()):
            ov = old_heap.get(c)
            if ov is None or ov == v:
                continue
            if v[0] == "adt" and ov[0] == "adt" and v[1] == ov[1] and v[2] == ov[2]:
                nf = list(v[4])
                for i, (a, b) in enumerate(zip(ov[4], v[4])):
                    if a != b:
                        wv = wname("heap", "%s.%d" % (c, i))
                        nf[i] = wv
                        widened.append("%s.%d" % (c, i))
                        if a != wv:
                            changed = True
                st.heap[c] = ("adt", v[1], v[2], v[3], tuple(nf))
            else:
                wv = wname("heap", c)
                st.heap[c] = wv
                widened.append(c)
                if ov != wv:
                    changed = True
        if not changed and n >= 2:
            return Path("loopback", None, st, "bb%d" % h)
        if n >= 6:
            raise Unsupported("loop at bb%d of %s does not stabilise" % (h, act.fn["name"]))
        # constraints on widened symbols describe the previous iteration only
        wsyms = set(wname("local", x) for x in widened) | set(wname("heap", x) for x in widened)
        if wsyms:
            for t in list(st.cons.keys()):
                if mentions(t, wsyms):
                    del st.cons[t]
        st.emit(("widen", "bb%d" % h, tuple(widened), act.fn["path"]))
        act.visits[h] = (dict(fr), dict(st.heap), n + 1, order, outer_frames())
        return None

    # ---- branching ----------------------------------------------------------------
    def decide(self, st, t):
        """Value of boolean/integer term `t` if determined by the store."""
        if t[0] == "int":
            return t[1]
        kn = st.known(t)
        if kn is not None:
            return kn
        k = t[0]
        if k == "deq":
            d = st.cons.get(t[1])
            if t[1][0] == "int":
                return int(t[1][1] == t[2])
            if d is not None:
                if d[0] == "in":
                    if t[2] not in d[1]:
                        return 0
                    if len(d[1]) == 1:
                        return 1
                elif t[2] in d[1]:
                    return 0
            return None
        if k == "and":
            vals = [self.decide(st, a) for a in t[1]]
            if any(v == 0 for v in vals):
                return 0
            if all(v == 1 for v in vals):
                return 1
            return None
        if k == "app" and t[1] == "Not":
            v = self.decide(st, t[2][0])
            return None if v is None else 1 - v
        if k == "app" and t[1] in CMP_TRUE and len(t[2]) == 2:
            x, y = st.known(t[2][0]), st.known(t[2][1])
            if x is not None and y is not None:
                return int({"Eq": x == y, "Ne": x != y, "Lt": x < y, "Le": x <= y, "Gt": x > y, "Ge": x >= y}[t[1]])
            # finite domain on one side, constant on the other
            a, b = t[2]
            for (u, c, flip) in ((a, y, False), (b, x, True)):
                d = st.cons.get(u)
                if c is not None and d is not None and d[0] == "in" and all(isinstance(v, int) for v in d[1]):
                    res = set()
                    for v in d[1]:
                        l, r = (c, v) if flip else (v, c)
                        res.add({"Eq": l == r, "Ne": l != r, "Lt": l < r, "Le": l <= r, "Gt": l > r, "Ge": l >= r}[t[1]])
                    if len(res) == 1:
                        return int(res.pop())
            (alo, ahi), (blo, bhi) = st.bnd_get(a), st.bnd_get(b)
            poss = set()
            if alo is None or bhi is None or alo <= bhi:
                pass
            # a < b possible unless alo >= bhi ; a > b possible unless ahi <= blo ; a == b possible unless ranges disjoint
            lt_possible = not (alo is not None and bhi is not None and alo >= bhi)
            gt_possible = not (ahi is not None and blo is not None and ahi <= blo)
            eq_possible = not ((alo is not None and bhi is not None and alo > bhi) or (ahi is not None and blo is not None and ahi < blo))
            brel = frozenset(c for c, okc in (("<", lt_possible), ("=", eq_possible), (">", gt_possible)) if okc)
            rel = st.rel_get(a, b) & brel
            if not rel:
                return None
            if rel <= CMP_TRUE[t[1]]:
                return 1
            if not (rel & CMP_TRUE[t[1]]):
                return 0
        if k == "app" and t[1] in ("Eq", "Ne") and len(t[2]) == 2:
            a, b = t[2]
            if b[0] != "int" and a[0] == "int":
                a, b = b, a
            if b[0] == "int":
                d = st.cons.get(a)
                r = None
                if d is not None:
                    if d[0] == "in":
                        if b[1] not in d[1]:
                            r = 0
                        elif len(d[1]) == 1:
                            r = 1
                    elif b[1] in d[1]:
                        r = 0
                if r is not None:
                    return r if t[1] == "Eq" else 1 - r
        return None

    def assume(self, st, t, val):
        """Record t == val (val int). Returns False when contradictory."""
        if t[0] == "int":
            return t[1] == val
        k = t[0]
        if k == "and":
            if val == 1:
                for a in t[1]:
                    if not self.assume(st, a, 1):
                        return False
                return True
            und = [a for a in t[1] if self.decide(st, a) is None]
            if any(self.decide(st, a) == 0 for a in t[1]):
                return True
            if not und:
                return False
            if len(und) == 1:
                return self.assume(st, und[0], 0)
            return st.constrain_in(t, [0])
        if k == "deq":
            if val == 1:
                return st.constrain_in(t[1], [t[2]])
            if not st.constrain_out(t[1], [t[2]]):
                return False
            d = st.cons.get(t[1])
            if d is not None and d[0] == "out":
                dv = self.domain_values(st, t[1])
                if dv is not None:
                    left = [x for x in dv if x not in d[1]]
                    if not left:
                        return False            # every variant of the enum has been excluded
                    if len(left) == 1:
                        st.cons[t[1]] = ("in", frozenset(left))
            return True
        if k == "app" and t[1] == "Not":
            return self.assume(st, t[2][0], 1 - val)
        if k == "app" and t[1] in CMP_TRUE and len(t[2]) == 2:
            allowed = CMP_TRUE[t[1]] if val == 1 else frozenset("<=>") - CMP_TRUE[t[1]]
            if not st.rel_meet(t[2][0], t[2][1], allowed):
                return False
            a0, b0 = t[2]
            for (u, c, flip) in ((a0, b0, False), (b0, a0, True)):
                if c[0] == "int" and u[0] != "int":
                    al = allowed if not flip else frozenset({"<": ">", ">": "<", "=": "="}[x] for x in allowed)
                    lo = hi = None
                    if al == frozenset("<"):
                        hi = c[1] - 1
                    elif al == frozenset("<="):
                        hi = c[1]
                    elif al == frozenset(">"):
                        lo = c[1] + 1
                    elif al == frozenset(">="):
                        lo = c[1]
                    elif al == frozenset("="):
                        lo = hi = c[1]
                    if (lo is not None or hi is not None) and not st.bnd_meet(u, lo, hi):
                        return False
            if allowed == frozenset("=") and a0[0] != "int" and b0[0] != "int":
                # equal terms share their bounds
                (alo, ahi), (blo, bhi) = st.bnd_get(a0), st.bnd_get(b0)
                if not st.bnd_meet(a0, blo, bhi) or not st.bnd_meet(b0, alo, ahi):
                    return False
        if k == "app" and t[1] in ("Eq", "Ne") and len(t[2]) == 2:
            a, b = t[2]
            if b[0] != "int" and a[0] == "int":
                a, b = b, a
            if b[0] == "int":
                eq = (val == 1) == (t[1] == "Eq")
                if eq:
                    if not st.constrain_in(a, [b[1]]):
                        return False
                else:
                    if not st.constrain_out(a, [b[1]]):
                        return False
        return st.constrain_in(t, [val])

    def domain_values(self, st, d):
        """Finite set of values term d may take, if known from its shape (bool / enum discriminant)."""
        if d[0] == "discr":
            ty = term_type(d[1])
            if ty:
                a = self.adt(adt_base(ty))
                if a and a["kind"] == "enum":
                    return [v["discr"] if v["discr"] is not None else v["idx"] for v in a["variants"]]
        return None

    def do_switch(self, st, act, d, t, w):
        kn = self.decide(st, d)
        arms = t["arms"]
        if kn is not None:
            for val, tgt in arms:
                if val == kn:
                    act.block = tgt
                    return [st]
            act.block = t["otherwise"]
            return [st]
        out = []
        vals = [a[0] for a in arms]
        self.stats["forks"] += 1
        for val, tgt in arms:
            s2 = st.fork()
            if not self.assume(s2, d, val):
                continue
            s2.decisions = s2.decisions + ((d, val, w),)
            s2.stack[-1].block = tgt
            out.append(s2)
        dv = self.domain_values(st, d)
        covered = dv is not None and set(dv) <= set(vals)
        isbool = is_bool_term(d)
        if isbool and set(vals) >= {0}:
            # otherwise == true
            s2 = st.fork()
            if self.assume(s2, d, 1):
                s2.decisions = s2.decisions + ((d, 1, w),)
                s2.stack[-1].block = t["otherwise"]
                out.append(s2)
        elif not covered:
            s2 = st
            ok = True
            if not s2.constrain_out(d, vals):
                ok = False
            dec = ("not", tuple(vals))
            if ok and dv is not None:
                rest = set(dv) - set(vals)
                if not s2.constrain_in(d, rest):
                    ok = False
                elif len(rest) == 1:
                    dec = next(iter(rest))
            if ok:
                s2.decisions = s2.decisions + ((d, dec, w),)
                s2.stack[-1].block = t["otherwise"]
                out.append(s2)
        return out

    # ---- calls --------------------------------------------------------------------
    def do_call(self, st, act, t, w):
        f = self.operand(st, act, t["func"])
        args = [self.operand(st, act, a) for a in t["args"]]
        for _ in range(3):
            if f[0] == "ref":
                f = self.load(st, f[1])       # a &fn / &closure value
        if f[0] == "closure" and f[1] in self.prog.fns and t["target"] is not None:
            # a non-capturing closure coerced to a function pointer (e.g. an entry of a table of handlers)
            cfn = self.prog.fns[f[1]]
            selfarg = f if cfn["body"]["locals"][1]["ty"]["k"] != "ref" else ("ref", ("val", f, ()), False)
            self.stats["inlined"].add(cfn["name"])
            self.push(st, cfn, cfn["body"], [selfarg] + args, t["dest"], t["target"])
            return [st]
        if f[0] != "fn":
            raise Unsupported("indirect call at %s" % w)
        fnj = self.fnrefs[f[1]]
        return self.call_fn(st, act, fnj, args, t["dest"], t["target"], w, t)

    def finish_call(self, st, act, dest, target, val, w):
        if target is None:
            st.emit(("panic", "diverging-call", (), w))
            return [Path("panic", None, st, "diverging call")]
        self.store(st, self.place_target(st, act.fid, dest), val, w)
        act.block = target
        return [st]

    def call_fn(self, st, act, fnj, args, dest, target, w, term=None):
        r = fnj.get("resolved")
        name = (r or fnj)["name"]
        path = (r or fnj)["path"]
        ci = CallInfo(self, st, act, fnj, name, args, dest, target, w)
        # 1. engine hooks
        for pred, hook in self.hooks.items():
            if pred(ci):
                res = hook(ci)
                if res is not None:
                    return self.apply_results(ci, res)
        # 2. inline workspace functions
        target_fn = self.prog.fns.get(path)
        if target_fn is not None and not self.no_inline(target_fn) and not self.models.force_model(ci):
            if target is None:
                # diverging workspace fn
                st.emit(("panic", name, tuple(args), w))
                return [Path("panic", None, st, name)]
            self.stats["inlined"].add(name)
            if target_fn.get("kind") == "Closure" and len(args) == 2 and target_fn["body"]["arg_count"] != 2 or \
                    (target_fn.get("kind") == "Closure" and len(args) == 2 and args[1][0] in ("tuple", "unit") and fnj.get("item") in ("call", "call_mut", "call_once")):
                # Fn*::call(closure, (a, b, ..)): the closure body takes the tuple's fields as separate arguments
                spread = list(args[1][1]) if args[1][0] == "tuple" else []
                args = [args[0]] + spread
            self.push(st, target_fn, target_fn["body"], args, dest, target, targs=ci.targs())
            return [st]
        # 3. models
        res = self.models.call(ci)
        if res is not None:
            self.stats["modelled"].add(name)
            self.check_not_swallowed(st, name, res)
            return self.apply_results(ci, res)
        # 3b. a closure / function value called through a generic `F: Fn*` parameter: dispatch on the value
        if fnj.get("item") in ("call", "call_mut", "call_once") and (fnj.get("trait") or "").startswith("core::ops::function::Fn") and len(args) == 2 and target is not None:
            f = args[0]
            fref = None
            for _ in range(4):
                if f[0] == "ref":
                    fref = f
                    try:
                        f = self.load(st, f[1])
                    except Unsupported:
                        break
                else:
                    break
            spread = list(args[1][1]) if args[1][0] == "tuple" else ([] if args[1][0] == "unit" else None)
            if spread is not None and f[0] == "closure" and f[1] in self.prog.fns:
                cfn = self.prog.fns[f[1]]
                selfarg = f
                if cfn["body"]["locals"][1]["ty"]["k"] == "ref":
                    selfarg = fref if (fref is not None and fref[0] == "ref") else ("ref", ("val", f, ()), False)
                self.stats["inlined"].add(cfn["name"])
                self.push(st, cfn, cfn["body"], [selfarg] + spread, dest, target)
                return [st]
            if spread is not None and f[0] == "fn":
                fj2 = self.fnrefs[f[1]]
                return self.call_fn(st, act, fj2, spread, dest, target, w)
        # 4. opaque effect
        self.stats["opaque_calls"].add(name)
        for a in args:
            bad = [] if any(re.search(pat, name) for pat in ANALYSED_SINKS) else self.effectful_fn_values(st, a)
            if bad:
                # the callee may invoke it any number of times (or never): what it does cannot be placed on the path
                raise Unsupported("%s receives the function value %s, which has effects (%s), and is not modelled" % (name, bad[0][0].split("::", 1)[-1], bad[0][1]))
        if target is None:
            st.emit(("panic", name, tuple(args), w))
            return [Path("panic", None, st, name)]
        rty = dest["ty"]
        rv = st.new_sym("ret:" + name.split("::")[-1], rty)
        loaded = []
        for a in args:
            if a[0] == "ref":
                try:
                    loaded.append(self.load(st, a[1]))
                except Unsupported:
                    loaded.append(None)
            else:
                loaded.append(None)
        st.emit(("call", name, tuple(args), rv, w, fnj.get("trait"), tuple(loaded)))
        # an unknown callee may write through every &mut it receives
        for i, a in enumerate(args):
            if a[0] == "ref" and a[2] and a[1][0] in ("loc", "heap"):
                hv = st.new_sym("mut:%s:%d" % (name.split("::")[-1], i), "?")
                if a[1][0] == "heap":
                    old = st.heap[a[1][1]]
                    st.heap[a[1][1]] = self.update(st, old, a[1][-1], hv, w) if a[1][-1] else hv
                else:
                    self.store(st, a[1], hv, w)
        return self.finish_call(st, act, dest, target, rv, w)

    # ---- effects of function values handed to code the evaluator does not follow -------------
    EFFECT_RE = re.compile(r"RefCell|cell::Cell|borrow_mut|::io::|thread::|::sync::|process_message|serial|::write|::read|flush|::set_|::replace|::take$|::swap")

    def static_effects(self, path, depth=0, seen=None):
        """why calling the function `path` may do more than compute its result (writes through a reference, I/O, a call that
        cannot be followed), or None when every path through it and its callees is free of such effects"""
        cache = self.__dict__.setdefault("_effects", {})
        if path in cache:
            return cache[path]
        seen = seen if seen is not None else set()
        if path in seen:
            return None
        seen.add(path)
        fn = self.prog.fns.get(path)
        if fn is None or fn.get("body") is None:
            return "no body for %s" % path
        if depth > 8:
            return "call depth"
        why = None
        for b in fn["body"]["blocks"]:
            if b.get("cleanup"):
                continue
            for s_ in b["stmts"]:
                if s_.get("st") != "assign":
                    continue
                if any(e.get("k") == "deref" for e in s_["place"]["proj"]):
                    why = "%s writes through a reference" % fn["name"]
                rv = s_["rvalue"]
                if rv.get("rv") == "ref" and rv.get("mut") and any(e.get("k") == "deref" for e in rv["place"]["proj"]):
                    why = "%s reborrows a reference mutably" % fn["name"]
            t = b["term"]
            if t["t"] == "call":
                f = t["func"]
                fj = f.get("fn") if f.get("op") == "const" else None
                if fj is None:
                    why = "indirect call in %s" % fn["name"]
                else:
                    r = fj.get("resolved") or fj
                    if r["path"] in self.prog.fns:
                        why = why or self.static_effects(r["path"], depth + 1, seen)
                    elif self.EFFECT_RE.search(r["name"]) or not any(pat.search(r["name"]) for pat, _, _ in self.models.table):
                        why = "%s calls %s" % (fn["name"], r["name"])
            if why:
                break
        cache[path] = why
        return why

    def check_not_swallowed(self, st, name, res):
        """A model may keep a lazy iterator (`map(f)`, `flat_map(f)`: an `iter` value, consumed later) but a *consumer* whose model
        keeps the iteration symbolic (`fold`, `sum`, `count`, `collect`, `last`, ...) never runs the adaptors' closures: if one of
        them has effects, they would silently disappear from every path."""
        vals = []
        if isinstance(res, tuple) and res and res[0] == "fork":
            vals = [v for _, v in res[1] if isinstance(v, tuple)]
        elif isinstance(res, tuple) and res and res[0] not in ("panic!", "inline", "suspend", "native", "multi", "iter", "closure", "fn", "ref"):
            vals = [res]
        for v in vals:
            if not (isinstance(v, tuple) and v and v[0] == "app"):
                continue
            bad = self.effectful_fn_values(st, v)
            if bad:
                raise Unsupported("%s is kept symbolic over an iterator whose closure %s has effects (%s): they would not happen on any path"
                                  % (name, bad[0][0].split("::", 1)[-1], bad[0][1]))

    def effectful_fn_values(self, st, v, depth=0, out=None, seen=None):
        """function values (closures, function items of the workspace) reachable in term `v` whose invocation may have effects"""
        out = out if out is not None else []
        seen = seen if seen is not None else set()
        if not isinstance(v, tuple) or depth > 12 or id(v) in seen:
            return out
        seen.add(id(v))
        if v and v[0] == "closure" and v[1] in self.prog.fns:
            why = self.static_effects(v[1])
            if why:
                out.append((v[1], why))
        elif v and v[0] == "fn" and isinstance(v[1], tuple):
            fj = self.fnrefs.get(v[1])
            r = (fj.get("resolved") or fj) if fj else None
            if r and r["path"] in self.prog.fns:
                why = self.static_effects(r["path"])
                if why:
                    out.append((r["path"], why))
        elif v and v[0] == "ref" and isinstance(v[1], tuple) and v[1] and v[1][0] in ("loc", "heap", "val"):
            try:
                self.effectful_fn_values(st, self.load(st, v[1]), depth + 1, out, seen)
            except Exception:
                pass
            return out
        for x in v:
            if isinstance(x, tuple):
                self.effectful_fn_values(st, x, depth + 1, out, seen)
        return out

    def apply_multi(self, ci, st, res):
        """('multi', [(closure-outcome state, kind, value)]): one continuation per outcome of a closure the model ran"""
        from models import adopt_state
        out = []
        for ps, kind, val in res[1]:
            s3 = st.fork()
            adopt_state(s3, ps)
            if kind == "panic":
                out.append(Path("panic", None, s3, val))
            elif isinstance(val, tuple) and val and val[0] == "fork":
                out.extend(self.apply_results(CallInfo(self, s3, s3.stack[-1], ci.fnj, ci.name, ci.args, ci.dest, ci.target, ci.w), val))
            else:
                out.extend(self.finish_call(s3, s3.stack[-1], ci.dest, ci.target, val, ci.w))
        return out

    def assume_all(self, s2, assumptions, w):
        """states in which every (term, value) holds; a negated conjunction is split into its cases
        (first conjunct false | first true and second false | ..) so that every decision stays a literal"""
        if not assumptions:
            return [s2]
        (t, v), rest = assumptions[0], assumptions[1:]
        if t[0] == "and" and v == 0 and len(t[1]) > 1:
            out = []
            for i in range(len(t[1])):
                s3 = s2.fork()
                out.extend(self.assume_all(s3, [(c, 1) for c in t[1][:i]] + [(t[1][i], 0)] + rest, w))
            return out
        if t[0] == "and" and v == 1:
            return self.assume_all(s2, [(c, 1) for c in t[1]] + rest, w)
        if not self.assume(s2, t, v):
            return []
        s2.decisions = s2.decisions + ((t, v, w),)
        return self.assume_all(s2, rest, w)

    def apply_results(self, ci, res):
        """res: term | ('fork', [(assumptions, term)]) | ('paths', list) | ('panic', why)"""
        st, act = ci.st, ci.act
        if isinstance(res, tuple) and res and res[0] == "fork":
            out = []
            branches = []
            for assumptions, val in res[1]:
                for s2 in self.assume_all(st.fork(), list(assumptions), ci.w):
                    branches.append((s2, val))
            for s2, val in branches:
                a2 = s2.stack[-1]
                if callable(val):
                    # a branch value that has side effects (a closure run only on this branch)
                    val = val(CallInfo(self, s2, a2, ci.fnj, ci.name, ci.args, ci.dest, ci.target, ci.w))
                    if val is None:
                        raise Unsupported("closure in %s could not be evaluated on a branch" % ci.name)
                    if isinstance(val, tuple) and val and val[0] == "multi":
                        out.extend(self.apply_multi(ci, s2, val))
                        continue
                    if isinstance(val, tuple) and val and val[0] == "fork":
                        out.extend(self.apply_results(CallInfo(self, s2, a2, ci.fnj, ci.name, ci.args, ci.dest, ci.target, ci.w), val))
                        continue
                if isinstance(val, tuple) and val and val[0] == "panic!":
                    s2.emit(("panic", val[1], (), ci.w))
                    out.append(Path("panic", None, s2, val[1]))
                elif isinstance(val, tuple) and val and val[0] == "inline":
                    self.push(s2, val[1], val[1]["body"], val[2], ci.dest, ci.target)
                    out.append(s2)
                else:
                    out.extend(self.finish_call(s2, a2, ci.dest, ci.target, val, ci.w))
            return out
        if isinstance(res, tuple) and res and res[0] == "panic!":
            st.emit(("panic", res[1], (), ci.w))
            return [Path("panic", None, st, res[1])]
        if isinstance(res, tuple) and res and res[0] == "multi":
            return self.apply_multi(ci, st, res)
        if isinstance(res, tuple) and res and res[0] == "native":
            return self.push_native(ci, res[1], res[2], res[3], res[4])
        if isinstance(res, tuple) and res and res[0] == "suspend":
            return [Path("suspended", None, st, ci)]
        if isinstance(res, tuple) and res and res[0] == "inline":
            _, fn, argv = res
            self.push(st, fn, fn["body"], argv, ci.dest, ci.target)
            return [st]
        return self.finish_call(st, act, ci.dest, ci.target, res, ci.w)


class CallInfo:
    def __init__(self, ev, st, act, fnj, name, args, dest, target, w):
        self.ev = ev
        self.st = st
        self.act = act
        self.fnj = fnj
        self.name = name
        self.args = args
        self.dest = dest
        self.target = target
        self.w = w
        self.orig_name = fnj["name"]
        self.trait = fnj.get("trait")
        self.item = fnj.get("item")

    def _sub(self, s):
        sub = self.act.subst
        return sub.get(s, s) if sub else s

    def targs(self):
        r = self.fnj.get("resolved")
        return [self._sub(a["s"]) for a in (r or self.fnj)["args"]]

    def orig_targs(self):
        return [self._sub(a["s"]) for a in self.fnj["args"]]

    def dest_ty(self):
        return self.act.body["locals"][self.dest["local"]]["ty"] if not self.dest["proj"] else {"s": self.dest["ty"], "k": "?"}

    def deref(self, v):
        """Load through a reference value."""
        if v[0] == "ref":
            return self.ev.load(self.st, v[1])
        return ("proj", v, ("deref",))


# ---- term utilities ---------------------------------------------------------------

def mentions(t, syms):
    if t in syms:
        return True
    if isinstance(t, tuple):
        for x in t:
            if isinstance(x, tuple) and mentions(x, syms):
                return True
    return False


def static_bounds(t, depth=0):
    """bounds of an integer term that follow from its shape alone (type ranges)"""
    if depth > 8:
        return (None, None)
    if t[0] == "int":
        return (t[1], t[1])
    if t[0] == "len":
        return (0, (1 << 63) - 1)
    if t[0] == "app" and t[1].startswith("cast:") and len(t[2]) == 1:
        bits, signed = int_bits(t[1][5:])
        ilo, ihi = static_bounds(t[2][0], depth + 1)
        ity = term_type(t[2][0])
        if ilo is None and ity:
            ib, isg = int_bits(ity)
            if ib and not isg:
                ilo, ihi = 0, (1 << ib) - 1
        if bits and not signed:
            tlo, thi = 0, (1 << bits) - 1
            if ilo is not None and ihi is not None and ilo >= tlo and ihi <= thi:
                return (ilo, ihi)
            return (tlo, thi)
        return (None, None)
    ty = term_type(t)
    if ty:
        bits, signed = int_bits(ty)
        if bits and not signed:
            return (0, (1 << bits) - 1)
    return (None, None)


def is_bool_term(t):
    if t[0] == "int":
        return t[2] == "bool"
    if t[0] in ("deq", "and", "eq"):
        return True
    if t[0] == "app" and t[1] in ("Eq", "Ne", "Lt", "Le", "Gt", "Ge", "Not", "is_empty", "AddOvf", "SubOvf", "MulOvf", "le_level"):
        return True
    if t[0] == "proj" and t[2][0] == "field" and len(t[2]) > 2 and t[2][2] == "bool":
        return True
    if t[0] == "sym" and t[2] == "bool":
        return True
    return False


def term_type(t):
    if t[0] == "sym":
        return t[2]
    if t[0] == "proj":
        e = t[2]
        if e[0] == "field" and len(e) > 2:
            return e[2]
        if e[0] == "downcast":
            return term_type(t[1])
        if e[0] == "deref":
            bt = term_type(t[1])
            if bt and bt.startswith("&"):
                return re.sub(r"^&('[a-z_]+ )?(mut )?", "", bt)
    if t[0] == "adt":
        return t[1]
    if t[0] == "int":
        return t[2]
    if t[0] == "app" and t[1].startswith(("collect:", "cast:")):
        return t[1].split(":", 1)[1]
    if t[0] == "app" and t[1] == "to_vec":
        return "alloc::vec::Vec<u8>"
    if t[0] == "app" and t[1] in ("captures", "group"):
        return "core::option::Option<regex::%s>" % t[1]
    if t[0] == "app" and t[1] in ("Add", "Sub", "Mul", "Div", "Rem", "BitAnd", "BitOr", "BitXor", "Shl", "Shr", "wrapping_add", "wrapping_sub") and len(t[2]) == 2:
        return term_type(t[2][0]) or (term_type(t[2][1]) if t[1] not in ("Shl", "Shr") else None)
    if t[0] == "unwrap" and t[1][0] == "app" and t[1][1].startswith("from_str_radix:"):
        return t[1][1].split(":", 1)[1]
    if t[0] == "unwrap":
        inner = term_type(t[1])
        if inner and (inner.startswith("core::option::Option<") or inner.startswith("core::result::Result<")):
            return first_generic_arg(inner)
        return None
    if t[0] == "item" and t[1][0] == "iter" and t[1][1] in ("chunks", "chunks_exact"):
        return "&[u8]"
    if t[0] == "item" and t[1][0] == "adt" and t[1][1].endswith("ops::range::Range") and len(t[1][4]) == 2:
        return term_type(t[1][4][1]) or term_type(t[1][4][0])
    if t[0] == "unwrap":
        return None
    return None


def first_generic_arg(tys):
    """`Result<Option<A, B>, E>` -> `Option<A, B>`"""
    i = tys.find("<")
    if i < 0:
        return None
    depth = 0
    start = i + 1
    for j in range(i, len(tys)):
        c = tys[j]
        if c in "<([":
            depth += 1
        elif c in ">)]":
            depth -= 1
            if depth == 0:
                return tys[start:j].strip()
        elif c == "," and depth == 1:
            return tys[start:j].strip()
    return None


def len_term(v):
    if v[0] == "app" and v[1].startswith("collect:") and "Vec<" in v[1] and len(v[2]) == 1:
        n = iter_count(v[2][0])
        if n is not None:
            return n         # collecting an iterator of known count into a Vec
    if v[0] == "app" and v[1] == "subslice" and v[2][1][0] == "int":
        base, lo, hi = v[2]
        if hi[0] == "int":
            return mk_int(max(hi[1] - lo[1], 0), "usize")
        if hi == len_term(base):
            return ("app", "Sub", (hi, lo)) if lo[1] else hi       # s[lo..]: len(s) - lo
        if base[0] == "seq" or (base[0] == "app" and base[1] == "subslice"):
            # a sub-slice that exists (taking it was an index obligation of its own) has hi - lo elements
            return ("app", "Sub", (hi, lo)) if lo[1] else hi
    if v[0] == "bytes":
        return mk_int(len(v[1]), "usize")
    if v[0] == "array":
        return mk_int(len(v[1]), "usize")
    if v[0] == "seq":
        n = 0
        items = [it for it in v[1] if it[0] != "overlay"]          # an overlay rewrites a range in place: the length stays
        if len(items) == 1 and items[0][0] == "fill_to" and v[1][0][0] == "fill_to":
            return items[0][1]                                        # vec![x; n]
        for it in items:
            if it[0] == "elem":
                n += 1
            elif it[0] == "splice" and it[1][0] == "bytes":
                n += len(it[1][1])
            elif it[0] == "mapped_all" and len(v[1]) == 1 and len(it[1]) == 1 and iter_count(it[2]) is not None:
                return iter_count(it[2])        # one push per item of an iterator that ran to exhaustion
            else:
                return ("len", v)
        return mk_int(n, "usize")
    return ("len", v)


def seq_summary(ov, v, idle=False):
    """Loop invariant for a push loop.  ov/v: a local's value at the previous / this arrival at the loop header.
    First widening: v == ov ++ [elem e1..ek]  ->  ov ++ [mapped (e1..ek)], read "zero or more repetitions of the group, one per
    iteration, the generic item terms standing for that iteration's item".  Later arrivals: the body must have appended exactly
    the group again (inductive step under the widened state of everything else), then the value is unchanged; otherwise None
    and the caller widens to an opaque symbol."""
    if ov[0] != "seq" or v[0] != "seq":
        return None
    o, n = ov[1], v[1]
    if len(n) <= len(o) or n[:len(o)] != o:
        return None
    extra = n[len(o):]
    if not all(x[0] == "elem" for x in extra):
        return None
    if o and o[-1][0] in ("mapped", "mapped_some"):
        return ov if extra == o[-1][1] else None
    its = set()
    collect_items(extra, its)
    # `mapped`: every iteration so far appended the group; `mapped_some`: some iterations did not (conditional push)
    return ("seq", o + (("mapped_some" if idle else "mapped", extra, its.pop() if len(its) == 1 else None),))


def has_item(t):
    if isinstance(t, tuple):
        if t and t[0] in ("item", "item_index"):
            return True
        return any(has_item(x) for x in t)
    return False


def collect_items(t, out):
    if isinstance(t, tuple):
        if t and t[0] == "item" and len(t) >= 2:
            out.add(t[1])
            return
        for x in t:
            collect_items(x, out)


def iter_count(it):
    """number of items of an iterator term, as a term (None when not known)"""
    if it[0] != "iter":
        return None
    if it[1] == "chunks_exact" and it[3][0] == "int" and it[3][1] > 0:
        return ("app", "Div", (len_term(it[2]), it[3]))
    if it[1] == "chunks" and it[3][0] == "int" and it[3][1] > 0:
        return ("app", "div_ceil", (len_term(it[2]), it[3]))
    if it[1] in ("slice", "slice_mut"):
        return len_term(it[2])
    if it[1] in ("copied", "cloned", "enumerate", "map"):
        return iter_count(it[2])
    return None


def index_term(v, i):
    if i[0] == "int":
        if v[0] == "bytes":
            if i[1] < len(v[1]):
                return mk_int(v[1][i[1]], "u8")
            raise Infeasible()
        if v[0] == "array":
            if i[1] < len(v[1]):
                return v[1][i[1]]
            raise Infeasible()
    return ("proj", v, ("index", i))


def fmt_term(t, depth=0):
    """Human-readable rendering of a term (reports only)."""
    if not isinstance(t, tuple) or not t:
        return repr(t)
    k = t[0]
    if depth > 12:
        return "…"
    f = lambda x: fmt_term(x, depth + 1)
    if k == "int":
        if t[2] == "bool":
            return "true" if t[1] else "false"
        return "%d" % t[1] if t[1] < 10 else "0x%X" % t[1]
    if k == "sym":
        return t[1]
    if k == "bytes":
        return "[" + " ".join("%02X" % b for b in t[1][:40]) + ("…" if len(t[1]) > 40 else "") + "]"
    if k == "adt":
        nm = t[1].split("::")[-1] + "::" + t[3]
        a_short = t[3] if t[1].split("::")[-1] == t[3] else nm
        return a_short + ("(" + ", ".join(f(x) for x in t[4]) + ")" if t[4] else "")
    if k == "tuple":
        return "(" + ", ".join(f(x) for x in t[1]) + ")"
    if k == "array":
        return "[" + ", ".join(f(x) for x in t[1]) + "]"
    if k == "ref":
        tg = t[1]
        if tg[0] == "val":
            s = f(tg[1])
        elif tg[0] == "heap":
            s = tg[1]
        else:
            s = "frame%d._%d" % (tg[1], tg[2])
        for e in tg[-1]:
            s += "." + (str(e[1]) if e[0] == "field" else e[0])
        return "&" + s
    if k == "proj":
        e = t[2]
        if e[0] == "field":
            return "%s.%d" % (f(t[1]), e[1])
        if e[0] == "downcast":
            return "(%s as %s)" % (f(t[1]), e[2] if len(e) > 2 else "#%d" % e[1])
        if e[0] == "deref":
            return "*%s" % f(t[1])
        if e[0] == "index":
            return "%s[%s]" % (f(t[1]), f(e[1]))
        return "%s.%s" % (f(t[1]), e[0])
    if k == "discr":
        return "discr(%s)" % f(t[1])
    if k == "len":
        return "len(%s)" % f(t[1])
    if k == "app":
        return "%s(%s)" % (t[1], ", ".join(f(x) for x in t[2]))
    if k == "deq":
        return "%s==%s" % (f(t[1]), t[2])
    if k == "and":
        return " && ".join(f(x) for x in t[1])
    if k == "eq":
        return "(%s == %s)" % (f(t[1]), f(t[2]))
    if k == "unwrap":
        return "unwrap(%s)" % f(t[1])
    if k == "seq":
        return "seq[" + ", ".join(("%s" % f(i[1])) if i[0] == "elem" else ("*%s" % f(i[1])) if i[0] == "splice" else ("(%s)*" % ", ".join(f(x[1]) for x in i[1])) if i[0] in ("mapped", "mapped_all", "mapped_some") else ("overlay[%s..%s]=%s" % (f(i[1]), f(i[2]), ("fill " + f(i[3][1])) if i[3][0] == "fill" else "[" + ", ".join(f(x) for x in i[3][1]) + "]")) if i[0] == "overlay" else "fill_to(%s,%s)" % (f(i[1]), f(i[2])) for i in t[1]) + "]"
    if k == "item":
        return "item(%s)" % f(t[1])
    if k == "fn":
        return "fn:" + t[1][0]
    if k == "closure":
        return "closure:" + t[1]
    if k == "iter":
        return "iter:%s(%s)" % (t[1], ", ".join(f(x) if isinstance(x, tuple) else str(x) for x in t[2:]))
    return k + "(" + ", ".join(f(x) if isinstance(x, tuple) else repr(x) for x in t[1:]) + ")"
