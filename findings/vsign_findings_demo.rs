// Demonstrations of findings F2-F5 against the real code (pre-fix: all four fail; post-fix: all pass).
// Place in libs/testing/tests/ and run: cargo test -p flipdot-testing --test vsign_findings_demo
use flipdot_core::{Address, ChunkCount, Data, Message, Offset, Operation, PageFlipStyle, SignType, State};
use flipdot_testing::VirtualSign;

fn configured(addr: u16) -> VirtualSign<'static> {
    let mut s = VirtualSign::new(Address(addr), PageFlipStyle::Manual);
    s.process_message(&Message::RequestOperation(Address(addr), Operation::ReceiveConfig));
    s.process_message(&Message::SendData(Offset(0), Data::try_new(SignType::Max3000Side90x7.to_bytes()).unwrap()));
    s.process_message(&Message::DataChunksSent(ChunkCount(1)));
    assert_eq!(State::ConfigReceived, s.state());
    s
}

#[test]
fn f2_missing_chunk_ends_in_failed_not_panic() {
    let mut s = configured(3);
    s.process_message(&Message::RequestOperation(Address(3), Operation::ReceivePixels));
    for i in 0..5u16 {
        // 5 of the 6 chunks of a 96-byte page
        s.process_message(&Message::SendData(Offset(i * 16), Data::try_new(vec![0u8; 16]).unwrap()));
    }
    s.process_message(&Message::DataChunksSent(ChunkCount(5)));
    assert!(matches!(s.state(), State::PixelsFailed | State::PixelsReceived));
    assert!(s.pages().iter().all(|p| p.as_bytes().len() == 96));
}

#[test]
fn f3_wide_max3000_config_does_not_overflow() {
    let mut s = VirtualSign::new(Address(3), PageFlipStyle::Manual);
    s.process_message(&Message::RequestOperation(Address(3), Operation::ReceiveConfig));
    let block = [0x04u8, 0x99, 0, 0, 7, 200, 200, 0, 0, 8, 0, 0, 0, 0, 0, 0];
    s.process_message(&Message::SendData(Offset(0), Data::try_new(&block[..]).unwrap()));
    s.process_message(&Message::DataChunksSent(ChunkCount(1)));
    assert_eq!(State::ConfigReceived, s.state());
}

#[test]
fn f4_many_chunks_do_not_overflow_the_counter() {
    let mut s = configured(3);
    s.process_message(&Message::RequestOperation(Address(3), Operation::ReceivePixels));
    for _ in 0..65_537u32 {
        s.process_message(&Message::SendData(Offset(16), Data::try_new(vec![0u8; 1]).unwrap()));
    }
    s.process_message(&Message::DataChunksSent(ChunkCount(0)));
    assert!(matches!(s.state(), State::PixelsFailed | State::PixelsReceived));
}

#[test]
fn f5_count_message_does_not_touch_a_sign_that_is_not_receiving() {
    let mut s = configured(3);
    s.process_message(&Message::RequestOperation(Address(3), Operation::ReceivePixels));
    for i in 0..6u16 {
        s.process_message(&Message::SendData(Offset(i * 16), Data::try_new(vec![0u8; 16]).unwrap()));
    }
    s.process_message(&Message::RequestOperation(Address(3), Operation::StartReset));
    assert_eq!(State::ReadyToReset, s.state());
    assert_eq!(0, s.pages().len());
    // another sign's transfer ends: the unaddressed count message passes by
    s.process_message(&Message::DataChunksSent(ChunkCount(9)));
    assert_eq!(0, s.pages().len(), "a sign in ReadyToReset gained a page from somebody else's count message");
}
