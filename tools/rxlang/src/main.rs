//! rxlang — decides whether `regex::bytes::Regex::new(pattern).captures(input).is_some()` accepts exactly the
//! documented frame shape  ':' X^8 (XX)* XX ("\r\n")?  (X = [0-9A-Fa-f]), and reports the layout of the named groups.
//! Uses the same regex-syntax / regex-automata versions as the repository's Cargo.lock, with the bytes::Regex
//! defaults (unicode on, utf8 off).  Output: one JSON object on stdout.
use regex_automata::dfa::{dense, Automaton, StartKind};
use regex_automata::util::primitives::StateID;
use regex_automata::{Anchored, Input};
use regex_syntax::hir::{self, Hir, HirKind};
use std::collections::{HashMap, VecDeque};
use std::io::Read;

fn is_hex(b: u8) -> bool {
    b.is_ascii_hexdigit()
}

/// reference DFA for ':' X^8 (XX)* XX ("\r\n")?   — states: 0 start, 1..=10 after ':' + k hex (k = 0..9), then parity
/// 10 = even number of hex digits >= 10 (accepting), 11 = odd (>= 11), 12 = after '\r', 13 = after "\r\n" (accepting), 99 dead
fn ref_step(s: u8, b: u8) -> u8 {
    match s {
        0 => if b == b':' { 1 } else { 99 },
        1..=9 => if is_hex(b) { s + 1 } else { 99 },
        // s == 10: ':' + 9 hex? careful: state k+1 = k hex digits read. 1 -> 0 digits ... 11 -> 10 digits
        10 => if is_hex(b) { 11 } else { 99 },
        11 => { // 10 digits: accepting, even
            if is_hex(b) { 12 } else if b == b'\r' { 13 } else { 99 }
        }
        12 => if is_hex(b) { 11 } else { 99 }, // odd count > 10
        13 => if b == b'\n' { 14 } else { 99 },
        14 => 99,
        _ => 99,
    }
}
fn ref_accept(s: u8) -> bool {
    s == 11 || s == 14
}

fn jesc(s: &str) -> String {
    let mut o = String::from("\"");
    for c in s.chars() {
        match c {
            '"' => o.push_str("\\\""),
            '\\' => o.push_str("\\\\"),
            '\n' => o.push_str("\\n"),
            '\r' => o.push_str("\\r"),
            c if (c as u32) < 0x20 || (c as u32) > 0x7e => o.push_str(&format!("\\u{:04x}", c as u32)),
            c => o.push(c),
        }
    }
    o.push('"');
    o
}

fn show_bytes(w: &[u8]) -> String {
    let mut s = String::new();
    for &b in w {
        if (0x20..0x7f).contains(&b) && b != b'\\' {
            s.push(b as char)
        } else {
            s.push_str(&format!("\\x{:02X}", b))
        }
    }
    s
}

struct Group {
    name: String,
    always: bool,
    off_min: usize,
    off_max: Option<usize>,
    min_len: usize,
    max_len: Option<usize>,
    hex_only: bool,
    unit: Option<usize>,
}

fn class_hex_only(h: &Hir) -> bool {
    match h.kind() {
        HirKind::Empty => true,
        HirKind::Literal(l) => l.0.iter().all(|b| is_hex(*b)),
        HirKind::Class(hir::Class::Bytes(c)) => c.iter().all(|r| (r.start()..=r.end()).all(is_hex)),
        HirKind::Class(hir::Class::Unicode(c)) => c.iter().all(|r| (r.start() as u32) < 128 && (r.end() as u32) < 128 && ((r.start() as u8)..=(r.end() as u8)).all(is_hex)),
        HirKind::Look(_) => true,
        HirKind::Repetition(r) => class_hex_only(&r.sub),
        HirKind::Capture(c) => class_hex_only(&c.sub),
        HirKind::Concat(v) | HirKind::Alternation(v) => v.iter().all(class_hex_only),
    }
}

/// if h is (sub){0,} or (sub)* with sub of fixed length k: Some(k)
fn unit_len(h: &Hir) -> Option<usize> {
    match h.kind() {
        HirKind::Repetition(r) => {
            let p = r.sub.properties();
            match (p.minimum_len(), p.maximum_len()) {
                (Some(a), Some(b)) if a == b => Some(a),
                _ => None,
            }
        }
        HirKind::Capture(c) => unit_len(&c.sub),
        _ => None,
    }
}

fn walk(h: &Hir, always: bool, off_min: usize, off_max: Option<usize>, out: &mut Vec<Group>) {
    match h.kind() {
        HirKind::Capture(c) => {
            if let Some(n) = &c.name {
                let p = c.sub.properties();
                out.push(Group {
                    name: n.to_string(),
                    always,
                    off_min,
                    off_max,
                    min_len: p.minimum_len().unwrap_or(0),
                    max_len: p.maximum_len(),
                    hex_only: class_hex_only(&c.sub),
                    unit: unit_len(&c.sub),
                });
            }
            walk(&c.sub, always, off_min, off_max, out);
        }
        HirKind::Concat(v) => {
            let (mut lo, mut hi) = (off_min, off_max);
            for x in v {
                walk(x, always, lo, hi, out);
                let p = x.properties();
                lo += p.minimum_len().unwrap_or(0);
                hi = match (hi, p.maximum_len()) {
                    (Some(a), Some(b)) => Some(a + b),
                    _ => None,
                };
            }
        }
        HirKind::Alternation(v) => {
            for x in v {
                walk(x, false, off_min, off_max, out);
            }
        }
        HirKind::Repetition(r) => {
            let opt = r.min == 0;
            let once = r.max == Some(1) && r.min == 1;
            walk(&r.sub, always && !opt && once, off_min, if once { off_max } else { None }, out);
        }
        _ => {}
    }
}

fn main() {
    let mut pat = String::new();
    std::io::stdin().read_to_string(&mut pat).expect("read pattern");
    let syn = regex_automata::util::syntax::Config::new().unicode(true).utf8(false);
    let dfa = match dense::Builder::new()
        .configure(dense::Config::new().minimize(true).start_kind(StartKind::Unanchored))
        .syntax(syn)
        .build(&pat)
    {
        Ok(d) => d,
        Err(e) => {
            println!("{{\"compiles\": false, \"error\": {}}}", jesc(&e.to_string()));
            return;
        }
    };
    // product exploration: (regex DFA state, already matched?, reference state)
    let start = dfa.start_state_forward(&Input::new(b"").anchored(Anchored::No)).expect("start state");
    let mut seen: HashMap<(StateID, bool, u8), (Option<(StateID, bool, u8)>, u8)> = HashMap::new();
    let mut q = VecDeque::new();
    let s0 = (start, false, 0u8);
    seen.insert(s0, (None, 0));
    q.push_back(s0);
    let mut witness: Option<(Vec<u8>, bool, bool)> = None;
    let mut product_states = 0usize;
    while let Some(cur) = q.pop_front() {
        product_states += 1;
        let (ds, matched, rs) = cur;
        let eoi = dfa.next_eoi_state(ds);
        let acc_regex = matched || dfa.is_match_state(eoi);
        let acc_ref = ref_accept(rs);
        if acc_regex != acc_ref {
            // rebuild the string
            let mut w = vec![];
            let mut c = cur;
            while let Some((Some(p), b)) = seen.get(&c).map(|x| (x.0, x.1)) {
                w.push(b);
                c = p;
            }
            w.reverse();
            witness = Some((w, acc_regex, acc_ref));
            break;
        }
        for b in 0u16..256 {
            let b = b as u8;
            let nd = dfa.next_state(ds, b);
            let nm = matched || dfa.is_match_state(nd);
            // collapse: once matched the regex side is absorbing
            let nd2 = if nm { start } else { nd };
            let nr = ref_step(rs, b);
            let nxt = (nd2, nm, nr);
            if !seen.contains_key(&nxt) {
                seen.insert(nxt, (Some(cur), b));
                q.push_back(nxt);
            }
        }
    }
    // groups
    let hirv = regex_syntax::ParserBuilder::new().unicode(true).utf8(false).build().parse(&pat).expect("parse");
    let mut groups = vec![];
    walk(&hirv, true, 0, Some(0), &mut groups);
    let mut gj = vec![];
    for g in &groups {
        gj.push(format!(
            "{{\"name\": {}, \"always\": {}, \"off_min\": {}, \"off_max\": {}, \"min_len\": {}, \"max_len\": {}, \"hex_only\": {}, \"unit\": {}}}",
            jesc(&g.name),
            g.always,
            g.off_min,
            g.off_max.map(|x| x.to_string()).unwrap_or("null".into()),
            g.min_len,
            g.max_len.map(|x| x.to_string()).unwrap_or("null".into()),
            g.hex_only,
            g.unit.map(|x| x.to_string()).unwrap_or("null".into())
        ));
    }
    let (eq, wj) = match &witness {
        None => (true, "null".to_string()),
        Some((w, a, r)) => (false, format!("{{\"string\": {}, \"hex\": {}, \"regex_accepts\": {}, \"spec_accepts\": {}}}", jesc(&show_bytes(w)), jesc(&w.iter().map(|b| format!("{:02X}", b)).collect::<String>()), a, r)),
    };
    println!(
        "{{\"compiles\": true, \"language_equal\": {}, \"witness\": {}, \"product_states\": {}, \"groups\": [{}], \"versions\": \"regex-syntax 0.8.11 / regex-automata 0.4.18\"}}",
        eq, wj, product_states, gj.join(", ")
    );
}
