//! mirfacts — rustc_private driver that dumps the type-checked program (MIR at
//! opt-level 0, ADTs, visibilities, evaluated constants, resolved callees) of
//! each workspace crate as one JSON file `$MIRFACTS_OUT/<crate>.json`.
//!
//! Injected through RUSTC_WORKSPACE_WRAPPER under `cargo +nightly check`; the
//! wrapper protocol passes the real rustc path as argv[1], which is dropped.
#![feature(rustc_private)]
#![allow(clippy::all)]

extern crate rustc_abi;
extern crate rustc_driver;
extern crate rustc_hir;
extern crate rustc_interface;
extern crate rustc_middle;
extern crate rustc_span;

mod json;
use json::Json;

use rustc_hir::def::DefKind;
use rustc_hir::def_id::{DefId, LOCAL_CRATE};
use rustc_middle::mir::{self, interpret};
use rustc_middle::ty::print::PrintTraitRefExt;
use rustc_middle::ty::{self, Ty, TyCtxt};
use std::collections::BTreeMap;

struct Cb;

impl rustc_driver::Callbacks for Cb {
    fn after_analysis<'tcx>(&mut self, _c: &rustc_interface::interface::Compiler, tcx: TyCtxt<'tcx>) -> rustc_driver::Compilation {
        if let Ok(out) = std::env::var("MIRFACTS_OUT") {
            let mut d = Dumper { tcx, adts: BTreeMap::new(), adt_queue: Vec::new() };
            let j = d.dump_crate();
            let name = tcx.crate_name(LOCAL_CRATE).to_string();
            let path = format!("{}/{}.json", out, name);
            let mut s = String::new();
            j.write(&mut s);
            // one write per process
            std::fs::write(&path, s).expect("mirfacts: cannot write fact file");
        }
        rustc_driver::Compilation::Continue
    }
}

fn main() {
    let mut args: Vec<String> = std::env::args().collect();
    // RUSTC_WORKSPACE_WRAPPER protocol: argv[1] is the path of the real rustc.
    if args.len() > 1 && (args[1].ends_with("rustc") || args[1].contains("/rustc")) {
        args.remove(1);
    }
    rustc_driver::run_compiler(&args, &mut Cb);
}

struct Dumper<'tcx> {
    tcx: TyCtxt<'tcx>,
    adts: BTreeMap<String, Json>,
    adt_queue: Vec<DefId>,
}

fn obj(v: Vec<(&str, Json)>) -> Json {
    Json::Obj(v.into_iter().map(|(k, v)| (k.to_string(), v)).collect())
}
fn s<T: Into<String>>(x: T) -> Json {
    Json::Str(x.into())
}
fn n<T: TryInto<i128>>(x: T) -> Json {
    match x.try_into() {
        Ok(v) => Json::Num(v),
        Err(_) => Json::Null,
    }
}

impl<'tcx> Dumper<'tcx> {
    /// Unique, crate-qualified path of a definition (verbose: impls numbered).
    fn upath(&self, did: DefId) -> String {
        let krate = self.tcx.crate_name(did.krate).to_string();
        format!("{}{}", krate, self.tcx.def_path(did).to_string_no_crate_verbose())
    }
    /// Pretty path (for reports and for semantic anchoring on public items).
    fn ppath(&self, did: DefId) -> String {
        ty::print::with_no_visible_paths!(ty::print::with_no_trimmed_paths!(ty::print::with_crate_prefix!(self.tcx.def_path_str(did))))
    }
    fn span(&self, sp: rustc_span::Span) -> Json {
        let sm = self.tcx.sess.source_map();
        let lo = sm.lookup_char_pos(sp.lo());
        let hi = sm.lookup_char_pos(sp.hi());
        let file = match &lo.file.name {
            rustc_span::FileName::Real(r) => match r.local_path() {
                Some(p) => p.to_string_lossy().to_string(),
                None => format!("{:?}", r),
            },
            other => format!("{:?}", other),
        };
        obj(vec![
            ("file", s(file)),
            ("line", n(lo.line)),
            ("col", n(lo.col.0 + 1)),
            ("eline", n(hi.line)),
            ("exp", Json::Bool(sp.from_expansion())),
        ])
    }

    fn ty_str(&self, t: Ty<'tcx>) -> String {
        ty::print::with_no_visible_paths!(ty::print::with_no_trimmed_paths!(ty::print::with_crate_prefix!(format!("{}", t))))
    }

    fn ty(&mut self, t: Ty<'tcx>) -> Json {
        let st = self.ty_str(t);
        let mut v: Vec<(&str, Json)> = vec![("s", s(st))];
        match t.kind() {
            ty::Bool => v.push(("k", s("bool"))),
            ty::Char => v.push(("k", s("char"))),
            ty::Int(i) => {
                v.push(("k", s("int")));
                v.push(("signed", Json::Bool(true)));
                v.push(("bits", n(i.bit_width().unwrap_or(64))));
            }
            ty::Uint(u) => {
                v.push(("k", s("int")));
                v.push(("signed", Json::Bool(false)));
                v.push(("bits", n(u.bit_width().unwrap_or(64))));
            }
            ty::Float(_) => v.push(("k", s("float"))),
            ty::Str => v.push(("k", s("str"))),
            ty::Never => v.push(("k", s("never"))),
            ty::Adt(def, args) => {
                v.push(("k", s("adt")));
                v.push(("adt", s(self.ppath(def.did()))));
                self.note_adt(def.did());
                let mut a = vec![];
                for ga in args.iter() {
                    if let Some(t2) = ga.as_type() {
                        a.push(self.ty(t2));
                    }
                }
                v.push(("args", Json::Arr(a)));
            }
            ty::Ref(_, inner, m) => {
                v.push(("k", s("ref")));
                v.push(("mut", Json::Bool(m.is_mut())));
                v.push(("inner", self.ty(*inner)));
            }
            ty::RawPtr(inner, m) => {
                v.push(("k", s("ptr")));
                v.push(("mut", Json::Bool(m.is_mut())));
                v.push(("inner", self.ty(*inner)));
            }
            ty::Slice(inner) => {
                v.push(("k", s("slice")));
                v.push(("inner", self.ty(*inner)));
            }
            ty::Array(inner, len) => {
                v.push(("k", s("array")));
                v.push(("inner", self.ty(*inner)));
                v.push(("len", match len.try_to_target_usize(self.tcx) {
                    Some(x) => n(x),
                    None => Json::Null,
                }));
            }
            ty::Tuple(ts) => {
                v.push(("k", s("tuple")));
                let mut a = vec![];
                for t2 in ts.iter() {
                    a.push(self.ty(t2));
                }
                v.push(("args", Json::Arr(a)));
            }
            ty::FnDef(did, args) => {
                v.push(("k", s("fndef")));
                v.push(("fn", self.fn_ref(*did, args, None)));
            }
            ty::Closure(did, _) => {
                v.push(("k", s("closure")));
                v.push(("def", s(self.upath(*did))));
            }
            ty::Param(p) => {
                v.push(("k", s("param")));
                v.push(("name", s(p.name.to_string())));
            }
            ty::Dynamic(..) => v.push(("k", s("dyn"))),
            ty::FnPtr(..) => v.push(("k", s("fnptr"))),
            ty::Alias(..) => v.push(("k", s("alias"))),
            _ => v.push(("k", s("other"))),
        }
        obj(v)
    }

    fn note_adt(&mut self, did: DefId) {
        let key = self.ppath(did);
        if !self.adts.contains_key(&key) {
            self.adts.insert(key, Json::Null);
            self.adt_queue.push(did);
        }
    }

    fn vis(&self, v: ty::Visibility<DefId>) -> Json {
        match v {
            ty::Visibility::Public => s("pub"),
            ty::Visibility::Restricted(d) => s(format!("restricted:{}", self.upath(d))),
        }
    }

    fn adt_json(&mut self, did: DefId) -> Json {
        let tcx = self.tcx;
        let def = tcx.adt_def(did);
        let mut variants = vec![];
        for (vidx, vdef) in def.variants().iter_enumerated() {
            let discr = if def.is_enum() {
                let d = def.discriminant_for_variant(tcx, vidx);
                n(d.val)
            } else {
                Json::Null
            };
            let mut fields = vec![];
            for f in vdef.fields.iter() {
                let fty = tcx.type_of(f.did).instantiate_identity().skip_norm_wip();
                let fj = self.ty(fty);
                fields.push(obj(vec![("name", s(f.name.to_string())), ("vis", self.vis(f.vis)), ("ty", fj)]));
            }
            variants.push(obj(vec![
                ("name", s(vdef.name.to_string())),
                ("idx", n(vidx.as_u32())),
                ("discr", discr),
                ("fields", Json::Arr(fields)),
                ("ctor_vis", match vdef.ctor_def_id() {
                    Some(c) => self.vis(tcx.visibility(c)),
                    None => Json::Null,
                }),
            ]));
        }
        obj(vec![
            ("path", s(self.ppath(did))),
            ("upath", s(self.upath(did))),
            ("local", Json::Bool(did.is_local())),
            ("kind", s(if def.is_enum() { "enum" } else if def.is_union() { "union" } else { "struct" })),
            ("vis", self.vis(tcx.visibility(did))),
            ("non_exhaustive", Json::Bool(def.is_variant_list_non_exhaustive())),
            ("variants", Json::Arr(variants)),
        ])
    }

    /// Reference to a function item, with generic args; resolved to an instance when possible.
    fn fn_ref(&mut self, did: DefId, args: ty::GenericArgsRef<'tcx>, body_owner: Option<DefId>) -> Json {
        let tcx = self.tcx;
        let mut v: Vec<(&str, Json)> = vec![("path", s(self.upath(did))), ("name", s(self.ppath(did)))];
        v.push(("local", Json::Bool(did.is_local())));
        v.push(("krate", s(tcx.crate_name(did.krate).to_string())));
        let mut a = vec![];
        for ga in args.iter() {
            if let Some(t2) = ga.as_type() {
                a.push(self.ty(t2));
            }
        }
        v.push(("args", Json::Arr(a)));
        v.push(("item", s(tcx.item_name(did).to_string())));
        // trait method?
        if let Some(assoc) = tcx.opt_associated_item(did) {
            if let Some(tr) = assoc.trait_container(tcx) {
                v.push(("trait", s(self.ppath(tr))));
            }
            if let Some(imp) = assoc.impl_container(tcx) {
                v.push(("impl", self.impl_info(imp)));
            }
        }
        if let Some(owner) = body_owner {
            let env = ty::TypingEnv::post_analysis(tcx, owner);
            if let Ok(Some(inst)) = ty::Instance::try_resolve(tcx, env, did, args) {
                let rd = inst.def_id();
                let kind = match inst.def {
                    ty::InstanceKind::Item(_) => "item",
                    ty::InstanceKind::Virtual(..) => "virtual",
                    ty::InstanceKind::Intrinsic(_) => "intrinsic",
                    ty::InstanceKind::ClosureOnceShim { .. } => "closure_once_shim",
                    ty::InstanceKind::FnPtrShim(..) => "fnptr_shim",
                    ty::InstanceKind::CloneShim(..) => "clone_shim",
                    ty::InstanceKind::DropGlue(..) => "drop_glue",
                    _ => "other",
                };
                let mut r: Vec<(&str, Json)> = vec![
                    ("kind", s(kind)),
                    ("path", s(self.upath(rd))),
                    ("name", s(self.ppath(rd))),
                    ("local", Json::Bool(rd.is_local())),
                ];
                let mut ra = vec![];
                for ga in inst.args.iter() {
                    if let Some(t2) = ga.as_type() {
                        ra.push(self.ty(t2));
                    }
                }
                r.push(("args", Json::Arr(ra)));
                if let Some(assoc) = tcx.opt_associated_item(rd) {
                    if let Some(imp) = assoc.impl_container(tcx) {
                        r.push(("impl", self.impl_info(imp)));
                    }
                }
                v.push(("resolved", obj(r)));
            }
        }
        obj(v)
    }

    fn impl_info(&mut self, imp: DefId) -> Json {
        let tcx = self.tcx;
        let self_ty = tcx.type_of(imp).instantiate_identity().skip_norm_wip();
        let mut v: Vec<(&str, Json)> = vec![("self_ty", s(self.ty_str(self_ty)))];
        if let ty::Adt(d, _) = self_ty.kind() {
            v.push(("self_adt", s(self.ppath(d.did()))));
        }
        if matches!(tcx.def_kind(imp), DefKind::Impl { of_trait: true }) {
            let tr = tcx.impl_trait_ref(imp).instantiate_identity().skip_norm_wip();
            v.push(("trait", s(self.ppath(tr.def_id))));
            v.push(("trait_ref", s(ty::print::with_no_visible_paths!(ty::print::with_no_trimmed_paths!(ty::print::with_crate_prefix!(format!("{}", tr.print_only_trait_path())))))));
            let mut ta = vec![];
            for ga in tr.args.iter().skip(1) {
                if let Some(t2) = ga.as_type() {
                    ta.push(s(self.ty_str(t2)));
                }
            }
            v.push(("trait_args", Json::Arr(ta)));
        }
        v.push(("automatically_derived", Json::Bool(tcx.is_automatically_derived(imp))));
        if imp.is_local() {
            v.push(("span", self.span(tcx.def_span(imp))));
        }
        obj(v)
    }

    fn alloc_json(&mut self, alloc_id: interpret::AllocId, offset: u64, depth: u32) -> Json {
        let tcx = self.tcx;
        match tcx.try_get_global_alloc(alloc_id) {
            Some(interpret::GlobalAlloc::Memory(ca)) => {
                let a = ca.inner();
                let len = a.len();
                let bytes = a.inspect_with_uninit_and_ptr_outside_interpreter(0..len);
                let mut ptrs = vec![];
                if depth < 4 {
                    for (off, prov) in a.provenance().ptrs().iter() {
                        let off_b = off.bytes();
                        // the pointer's own offset lives in the bytes
                        let psz = 8usize;
                        let mut raw = [0u8; 8];
                        if (off_b as usize) + psz <= len {
                            raw.copy_from_slice(&bytes[off_b as usize..off_b as usize + psz]);
                        }
                        let inner_off = u64::from_le_bytes(raw);
                        ptrs.push(Json::Arr(vec![n(off_b), self.alloc_json(prov.alloc_id(), inner_off, depth + 1)]));
                    }
                }
                obj(vec![
                    ("k", s("alloc")),
                    ("offset", n(offset)),
                    ("bytes", Json::Arr(bytes.iter().map(|b| n(*b)).collect())),
                    ("ptrs", Json::Arr(ptrs)),
                ])
            }
            Some(interpret::GlobalAlloc::Function { instance }) => obj(vec![("k", s("fn_alloc")), ("name", s(self.ppath(instance.def_id())))]),
            Some(interpret::GlobalAlloc::Static(d)) => obj(vec![("k", s("static")), ("name", s(self.ppath(d))), ("path", s(self.upath(d))), ("mutable", Json::Bool(self.tcx.is_mutable_static(d)))]),
            _ => obj(vec![("k", s("unknown_alloc"))]),
        }
    }

    fn const_value(&mut self, val: mir::ConstValue, t: Ty<'tcx>) -> Json {
        match val {
            mir::ConstValue::Scalar(interpret::Scalar::Int(i)) => {
                let bits = i.to_bits(i.size());
                let mut v = vec![("k", s("int")), ("bits", n(bits)), ("size", n(i.size().bytes()))];
                // signed interpretation
                if let ty::Int(_) = t.kind() {
                    let sz = i.size().bits();
                    let sv = if sz == 0 { 0 } else { ((bits as i128) << (128 - sz)) >> (128 - sz) };
                    v.push(("val", n(sv)));
                } else {
                    v.push(("val", n(bits)));
                }
                obj(v)
            }
            mir::ConstValue::Scalar(interpret::Scalar::Ptr(p, _)) => {
                let (prov, off) = p.into_raw_parts();
                let inner = self.alloc_json(prov.alloc_id(), off.bytes(), 0);
                obj(vec![("k", s("ptr")), ("to", inner)])
            }
            mir::ConstValue::ZeroSized => obj(vec![("k", s("zst"))]),
            mir::ConstValue::Slice { alloc_id, meta } => {
                let inner = self.alloc_json(alloc_id, 0, 0);
                obj(vec![("k", s("slice")), ("len", n(meta)), ("to", inner)])
            }
            mir::ConstValue::Indirect { alloc_id, offset } => {
                let inner = self.alloc_json(alloc_id, offset.bytes(), 0);
                obj(vec![("k", s("indirect")), ("to", inner)])
            }
        }
    }

    fn const_op(&mut self, c: &mir::ConstOperand<'tcx>, owner: DefId) -> Json {
        let tcx = self.tcx;
        let t = c.const_.ty();
        let mut v: Vec<(&str, Json)> = vec![("op", s("const")), ("ty", self.ty(t))];
        if let ty::FnDef(did, args) = t.kind() {
            v.push(("fn", self.fn_ref(*did, args, Some(owner))));
            return obj(v);
        }
        if let mir::Const::Unevaluated(uv, _) = c.const_ {
            if let Some(p) = uv.promoted {
                v.push(("promoted", n(p.as_u32())));
                v.push(("promoted_of", s(self.upath(uv.def))));
            } else {
                v.push(("unevaluated", s(self.ppath(uv.def))));
                v.push(("unevaluated_path", s(self.upath(uv.def))));
            }
        }
        let env = ty::TypingEnv::post_analysis(tcx, owner);
        match c.const_.eval(tcx, env, c.span) {
            Ok(val) => v.push(("val", self.const_value(val, t))),
            Err(_) => v.push(("val", Json::Null)),
        }
        obj(v)
    }

    fn place(&mut self, p: &mir::Place<'tcx>, body: &mir::Body<'tcx>) -> Json {
        let tcx = self.tcx;
        let mut proj = vec![];
        let mut pty = mir::PlaceTy::from_ty(body.local_decls[p.local].ty);
        for elem in p.projection.iter() {
            let j = match elem {
                mir::ProjectionElem::Deref => obj(vec![("k", s("deref"))]),
                mir::ProjectionElem::Field(f, fty) => {
                    let mut fname = Json::Null;
                    let mut of = Json::Null;
                    if let ty::Adt(def, _) = pty.ty.kind() {
                        of = s(self.ppath(def.did()));
                        let vidx = pty.variant_index.unwrap_or(rustc_abi::FIRST_VARIANT);
                        if (vidx.as_usize()) < def.variants().len() {
                            let vd = def.variant(vidx);
                            if f.as_usize() < vd.fields.len() {
                                fname = s(vd.fields[f].name.to_string());
                            }
                        }
                    }
                    obj(vec![("k", s("field")), ("i", n(f.as_u32())), ("name", fname), ("ty", s(self.ty_str(fty))), ("of", of)])
                }
                mir::ProjectionElem::Index(l) => obj(vec![("k", s("index")), ("local", n(l.as_u32()))]),
                mir::ProjectionElem::ConstantIndex { offset, min_length, from_end } => obj(vec![
                    ("k", s("cindex")),
                    ("offset", n(offset)),
                    ("min_length", n(min_length)),
                    ("from_end", Json::Bool(from_end)),
                ]),
                mir::ProjectionElem::Subslice { from, to, from_end } => {
                    obj(vec![("k", s("subslice")), ("from", n(from)), ("to", n(to)), ("from_end", Json::Bool(from_end))])
                }
                mir::ProjectionElem::Downcast(name, vidx) => obj(vec![
                    ("k", s("downcast")),
                    ("variant", n(vidx.as_u32())),
                    ("name", match name {
                        Some(sy) => s(sy.to_string()),
                        None => Json::Null,
                    }),
                ]),
                mir::ProjectionElem::OpaqueCast(_) => obj(vec![("k", s("opaque_cast"))]),
                mir::ProjectionElem::UnwrapUnsafeBinder(_) => obj(vec![("k", s("unwrap_binder"))]),
            };
            proj.push(j);
            pty = pty.projection_ty(tcx, elem);
        }
        obj(vec![("local", n(p.local.as_u32())), ("proj", Json::Arr(proj)), ("ty", s(self.ty_str(pty.ty)))])
    }

    fn operand(&mut self, o: &mir::Operand<'tcx>, body: &mir::Body<'tcx>, owner: DefId) -> Json {
        match o {
            mir::Operand::Copy(p) => obj(vec![("op", s("copy")), ("place", self.place(p, body))]),
            mir::Operand::Move(p) => obj(vec![("op", s("move")), ("place", self.place(p, body))]),
            mir::Operand::Constant(c) => self.const_op(c, owner),
            #[allow(unreachable_patterns)]
            _ => obj(vec![("op", s("other")), ("s", s(format!("{:?}", o)))]),
        }
    }

    fn rvalue(&mut self, r: &mir::Rvalue<'tcx>, body: &mir::Body<'tcx>, owner: DefId) -> Json {
        let tcx = self.tcx;
        match r {
            mir::Rvalue::Use(o, ..) => obj(vec![("rv", s("use")), ("x", self.operand(o, body, owner))]),
            mir::Rvalue::Repeat(o, c) => obj(vec![
                ("rv", s("repeat")),
                ("x", self.operand(o, body, owner)),
                ("count", match c.try_to_target_usize(tcx) {
                    Some(x) => n(x),
                    None => Json::Null,
                }),
            ]),
            mir::Rvalue::Ref(_, bk, p) => obj(vec![
                ("rv", s("ref")),
                ("mut", Json::Bool(matches!(bk, mir::BorrowKind::Mut { .. }))),
                ("bk", s(format!("{:?}", bk))),
                ("place", self.place(p, body)),
            ]),
            mir::Rvalue::RawPtr(k, p) => obj(vec![("rv", s("rawptr")), ("kind", s(format!("{:?}", k))), ("place", self.place(p, body))]),
            mir::Rvalue::Cast(k, o, t) => obj(vec![
                ("rv", s("cast")),
                ("kind", s(format!("{:?}", k))),
                ("x", self.operand(o, body, owner)),
                ("ty", self.ty(*t)),
            ]),
            mir::Rvalue::BinaryOp(op, ab) => {
                let (a, b) = &**ab;
                obj(vec![
                    ("rv", s("binop")),
                    ("o", s(format!("{:?}", op))),
                    ("a", self.operand(a, body, owner)),
                    ("b", self.operand(b, body, owner)),
                ])
            }
            mir::Rvalue::UnaryOp(op, a) => obj(vec![("rv", s("unop")), ("o", s(format!("{:?}", op))), ("a", self.operand(a, body, owner))]),
            mir::Rvalue::Discriminant(p) => obj(vec![("rv", s("discr")), ("place", self.place(p, body))]),
            mir::Rvalue::Aggregate(kind, ops) => {
                let mut v: Vec<(&str, Json)> = vec![("rv", s("aggregate"))];
                match &**kind {
                    mir::AggregateKind::Array(t) => {
                        v.push(("agg", s("array")));
                        v.push(("elem", self.ty(*t)));
                    }
                    mir::AggregateKind::Tuple => v.push(("agg", s("tuple"))),
                    mir::AggregateKind::Adt(did, vidx, _args, _, active) => {
                        v.push(("agg", s("adt")));
                        v.push(("adt", s(self.ppath(*did))));
                        self.note_adt(*did);
                        let def = tcx.adt_def(*did);
                        v.push(("variant", n(vidx.as_u32())));
                        v.push(("vname", s(def.variant(*vidx).name.to_string())));
                        v.push(("fields", Json::Arr(def.variant(*vidx).fields.iter().map(|f| s(f.name.to_string())).collect())));
                        if let Some(a) = active {
                            v.push(("active_field", n(a.as_u32())));
                        }
                    }
                    mir::AggregateKind::Closure(did, _) => {
                        v.push(("agg", s("closure")));
                        v.push(("def", s(self.upath(*did))));
                    }
                    other => {
                        v.push(("agg", s("other")));
                        v.push(("s", s(format!("{:?}", other))));
                    }
                }
                let mut a = vec![];
                for o in ops.iter() {
                    a.push(self.operand(o, body, owner));
                }
                v.push(("ops", Json::Arr(a)));
                obj(v)
            }
            mir::Rvalue::CopyForDeref(p) => obj(vec![("rv", s("use")), ("x", obj(vec![("op", s("copy")), ("place", self.place(p, body))]))]),
            other => obj(vec![("rv", s("other")), ("s", s(format!("{:?}", other)))]),
        }
    }

    fn body_json(&mut self, body: &mir::Body<'tcx>, owner: DefId) -> Json {
        let mut locals = vec![];
        for (l, d) in body.local_decls.iter_enumerated() {
            locals.push(obj(vec![
                ("i", n(l.as_u32())),
                ("ty", self.ty(d.ty)),
                ("mut", Json::Bool(d.mutability.is_mut())),
            ]));
        }
        let mut vars = vec![];
        for vdi in body.var_debug_info.iter() {
            if let mir::VarDebugInfoContents::Place(p) = &vdi.value {
                vars.push(obj(vec![("name", s(vdi.name.to_string())), ("place", self.place(p, body))]));
            }
        }
        let mut blocks = vec![];
        for (bb, data) in body.basic_blocks.iter_enumerated() {
            let mut stmts = vec![];
            for st in data.statements.iter() {
                let j = match &st.kind {
                    mir::StatementKind::Assign(b) => {
                        let (p, r) = &**b;
                        obj(vec![("st", s("assign")), ("place", self.place(p, body)), ("rvalue", self.rvalue(r, body, owner)), ("span", self.span(st.source_info.span))])
                    }
                    mir::StatementKind::SetDiscriminant { place, variant_index } => obj(vec![
                        ("st", s("setdiscr")),
                        ("place", self.place(place, body)),
                        ("variant", n(variant_index.as_u32())),
                    ]),
                    mir::StatementKind::StorageLive(_) | mir::StatementKind::StorageDead(_) | mir::StatementKind::Nop => continue,
                    mir::StatementKind::FakeRead(..) | mir::StatementKind::AscribeUserType(..) | mir::StatementKind::Coverage(..) | mir::StatementKind::ConstEvalCounter | mir::StatementKind::PlaceMention(..) | mir::StatementKind::BackwardIncompatibleDropHint { .. } => continue,
                    other => obj(vec![("st", s("other")), ("s", s(format!("{:?}", other)))]),
                };
                stmts.push(j);
            }
            let term = data.terminator();
            let tj = match &term.kind {
                mir::TerminatorKind::Goto { target } => obj(vec![("t", s("goto")), ("target", n(target.as_u32()))]),
                mir::TerminatorKind::SwitchInt { discr, targets } => {
                    let mut arms = vec![];
                    for (val, tgt) in targets.iter() {
                        arms.push(Json::Arr(vec![n(val), n(tgt.as_u32())]));
                    }
                    obj(vec![
                        ("t", s("switch")),
                        ("discr", self.operand(discr, body, owner)),
                        ("arms", Json::Arr(arms)),
                        ("otherwise", n(targets.otherwise().as_u32())),
                    ])
                }
                mir::TerminatorKind::Return => obj(vec![("t", s("return"))]),
                mir::TerminatorKind::Unreachable => obj(vec![("t", s("unreachable"))]),
                mir::TerminatorKind::UnwindResume => obj(vec![("t", s("resume"))]),
                mir::TerminatorKind::UnwindTerminate(_) => obj(vec![("t", s("terminate"))]),
                mir::TerminatorKind::Drop { place, target, .. } => obj(vec![("t", s("drop")), ("place", self.place(place, body)), ("target", n(target.as_u32()))]),
                mir::TerminatorKind::Call { func, args, destination, target, .. } => {
                    let mut a = vec![];
                    for sp in args.iter() {
                        a.push(self.operand(&sp.node, body, owner));
                    }
                    obj(vec![
                        ("t", s("call")),
                        ("func", self.operand(func, body, owner)),
                        ("args", Json::Arr(a)),
                        ("dest", self.place(destination, body)),
                        ("target", match target {
                            Some(t) => n(t.as_u32()),
                            None => Json::Null,
                        }),
                    ])
                }
                mir::TerminatorKind::Assert { cond, expected, msg, target, .. } => {
                    let (mk, mops): (String, Vec<Json>) = match &**msg {
                        mir::AssertKind::BoundsCheck { len, index } => ("BoundsCheck".into(), vec![self.operand(len, body, owner), self.operand(index, body, owner)]),
                        mir::AssertKind::Overflow(op, a, b) => (format!("Overflow({:?})", op), vec![self.operand(a, body, owner), self.operand(b, body, owner)]),
                        mir::AssertKind::OverflowNeg(a) => ("OverflowNeg".into(), vec![self.operand(a, body, owner)]),
                        mir::AssertKind::DivisionByZero(a) => ("DivisionByZero".into(), vec![self.operand(a, body, owner)]),
                        mir::AssertKind::RemainderByZero(a) => ("RemainderByZero".into(), vec![self.operand(a, body, owner)]),
                        other => (format!("{:?}", other).split('(').next().unwrap_or("other").split(' ').next().unwrap_or("other").to_string(), vec![]),
                    };
                    obj(vec![
                        ("t", s("assert")),
                        ("cond", self.operand(cond, body, owner)),
                        ("expected", Json::Bool(*expected)),
                        ("msg", s(mk)),
                        ("msg_ops", Json::Arr(mops)),
                        ("target", n(target.as_u32())),
                    ])
                }
                other => obj(vec![("t", s("other")), ("s", s(format!("{:?}", other)))]),
            };
            let mut tv = match tj {
                Json::Obj(v) => v,
                _ => unreachable!(),
            };
            tv.push(("span".to_string(), self.span(term.source_info.span)));
            blocks.push(obj(vec![
                ("i", n(bb.as_u32())),
                ("cleanup", Json::Bool(data.is_cleanup)),
                ("stmts", Json::Arr(stmts)),
                ("term", Json::Obj(tv)),
            ]));
        }
        obj(vec![
            ("arg_count", n(body.arg_count)),
            ("locals", Json::Arr(locals)),
            ("vars", Json::Arr(vars)),
            ("blocks", Json::Arr(blocks)),
        ])
    }

    fn dump_crate(&mut self) -> Json {
        let tcx = self.tcx;
        let mut fns = vec![];
        let mut statics = vec![];
        for ldid in tcx.hir_body_owners() {
            let did = ldid.to_def_id();
            let kind = tcx.def_kind(did);
            let kind_s = format!("{:?}", kind);
            if matches!(kind, DefKind::Static { .. }) {
                // every static of the crate (also those a macro such as thread_local! generates): process-global state
                let t = tcx.type_of(did).instantiate_identity().skip_norm_wip();
                statics.push(obj(vec![
                    ("path", s(self.upath(did))),
                    ("ty", s(format!("{}", t))),
                    ("mutable", Json::Bool(tcx.is_mutable_static(did))),
                    ("thread_local", Json::Bool(tcx.is_thread_local_static(did))),
                    ("span", self.span(tcx.def_span(did))),
                ]));
            }
            let is_const = matches!(kind, DefKind::Const { .. } | DefKind::AssocConst { .. } | DefKind::Static { .. });
            let has_mir = match kind {
                DefKind::Fn | DefKind::AssocFn | DefKind::Closure => true,
                // named constants (also associated consts of generic impls: the MIR is polymorphic): their initialiser is dumped so that ADT-typed constants
                // (e.g. a `Duration`) can be folded by the analyses instead of being read as raw bytes
                DefKind::Const { .. } | DefKind::AssocConst { .. } => true,
                // immutable statics (lookup tables): their initialiser, like a const's
                DefKind::Static { .. } => !tcx.is_mutable_static(did) && !tcx.is_foreign_item(did),
                _ => false,
            };
            if !has_mir {
                continue;
            }
            let mut v: Vec<(&str, Json)> = vec![
                ("path", s(self.upath(did))),
                ("name", s(self.ppath(did))),
                ("kind", s(kind_s)),
                ("span", self.span(tcx.def_span(did))),
                ("item", s(tcx.opt_item_name(did).map(|x| x.to_string()).unwrap_or_default())),
            ];
            if matches!(kind, DefKind::Fn | DefKind::AssocFn) {
                v.push(("vis", self.vis(tcx.visibility(did))));
                // effective visibility: can code outside the crate name (or dispatch to) this item?
                let reach = match did.as_local() {
                    Some(l) => tcx.effective_visibilities(()).is_reachable(l),
                    None => false,
                };
                v.push(("reachable", Json::Bool(reach)));
                if let Some(assoc) = tcx.opt_associated_item(did) {
                    if let Some(imp) = assoc.impl_container(tcx) {
                        v.push(("impl", self.impl_info(imp)));
                    }
                }
                let sig = tcx.fn_sig(did).instantiate_identity().skip_norm_wip().skip_binder();
                let mut ins = vec![];
                for t in sig.inputs().iter() {
                    ins.push(self.ty(*t));
                }
                v.push(("inputs", Json::Arr(ins)));
                v.push(("output", self.ty(sig.output())));
            }
            if matches!(kind, DefKind::Closure) {
                v.push(("parent", s(self.upath(tcx.typeck_root_def_id(did)))));
            }
            // names of the type parameters in substitution order (parents first), so that inlined generic
            // bodies can be read under the caller's instantiation
            {
                let mut names = vec![];
                let mut g = tcx.generics_of(if matches!(kind, DefKind::Closure) { tcx.typeck_root_def_id(did) } else { did });
                let mut chain = vec![g];
                while let Some(p) = g.parent {
                    g = tcx.generics_of(p);
                    chain.push(g);
                }
                for g in chain.iter().rev() {
                    for p in g.own_params.iter() {
                        if matches!(p.kind, ty::GenericParamDefKind::Type { .. }) {
                            names.push(s(p.name.to_string()));
                        }
                    }
                }
                v.push(("type_params", Json::Arr(names)));
            }
            if is_const {
                let body = tcx.mir_for_ctfe(did);
                v.push(("body", self.body_json(body, did)));
                let proms = tcx.promoted_mir(did);
                let mut pv = vec![];
                for (pi, pb) in proms.iter_enumerated() {
                    pv.push(obj(vec![("idx", n(pi.as_u32())), ("body", self.body_json(pb, did))]));
                }
                v.push(("promoted", Json::Arr(pv)));
                v.push(("type_params", Json::Arr(vec![])));
                fns.push(obj(v));
                continue;
            }
            let body = tcx.optimized_mir(did);
            v.push(("body", self.body_json(body, did)));
            let proms = tcx.promoted_mir(did);
            let mut pv = vec![];
            for (pi, pb) in proms.iter_enumerated() {
                pv.push(obj(vec![("idx", n(pi.as_u32())), ("body", self.body_json(pb, did))]));
            }
            v.push(("promoted", Json::Arr(pv)));
            fns.push(obj(v));
        }
        // unsafe usage, via HIR
        let mut unsafe_sites = vec![];
        {
            let mut vis = UnsafeFinder { tcx, sites: vec![] };
            tcx.hir_visit_all_item_likes_in_crate(&mut vis);
            for sp in vis.sites {
                unsafe_sites.push(self.span(sp));
            }
        }
        // ADTs (closure under field types)
        while let Some(did) = self.adt_queue.pop() {
            let key = self.ppath(did);
            let j = self.adt_json(did);
            self.adts.insert(key, j);
        }
        // also every local ADT even if never mentioned in MIR
        for id in tcx.hir_free_items() {
            let did = id.owner_id.to_def_id();
            if matches!(tcx.def_kind(did), DefKind::Struct | DefKind::Enum | DefKind::Union) {
                let key = self.ppath(did);
                if !self.adts.contains_key(&key) {
                    let j = self.adt_json(did);
                    self.adts.insert(key, j);
                }
            }
        }
        while let Some(did) = self.adt_queue.pop() {
            let key = self.ppath(did);
            let j = self.adt_json(did);
            self.adts.insert(key, j);
        }
        let adts: Vec<(String, Json)> = std::mem::take(&mut self.adts).into_iter().collect();
        obj(vec![
            ("crate", s(tcx.crate_name(LOCAL_CRATE).to_string())),
            ("fns", Json::Arr(fns)),
            ("adts", Json::Obj(adts)),
            ("unsafe_sites", Json::Arr(unsafe_sites)),
            ("statics", Json::Arr(statics)),
        ])
    }
}

struct UnsafeFinder<'tcx> {
    tcx: TyCtxt<'tcx>,
    sites: Vec<rustc_span::Span>,
}

impl<'tcx> rustc_hir::intravisit::Visitor<'tcx> for UnsafeFinder<'tcx> {
    type NestedFilter = rustc_middle::hir::nested_filter::All;
    fn maybe_tcx(&mut self) -> Self::MaybeTyCtxt {
        self.tcx
    }
    fn visit_block(&mut self, b: &'tcx rustc_hir::Block<'tcx>) {
        if let rustc_hir::BlockCheckMode::UnsafeBlock(src) = b.rules {
            if matches!(src, rustc_hir::UnsafeSource::UserProvided) && !b.span.from_expansion() {
                self.sites.push(b.span);
            }
        }
        rustc_hir::intravisit::walk_block(self, b);
    }
    fn visit_item(&mut self, it: &'tcx rustc_hir::Item<'tcx>) {
        match &it.kind {
            rustc_hir::ItemKind::Fn { sig, .. } => {
                if sig.header.is_unsafe() && !it.span.from_expansion() {
                    self.sites.push(it.span);
                }
            }
            rustc_hir::ItemKind::Impl(imp) => {
                if let Some(tr) = imp.of_trait {
                    if matches!(tr.safety, rustc_hir::Safety::Unsafe) && !it.span.from_expansion() {
                        self.sites.push(it.span);
                    }
                }
            }
            _ => {}
        }
        rustc_hir::intravisit::walk_item(self, it);
    }
    fn visit_impl_item(&mut self, it: &'tcx rustc_hir::ImplItem<'tcx>) {
        if let rustc_hir::ImplItemKind::Fn(sig, _) = &it.kind {
            if sig.header.is_unsafe() && !it.span.from_expansion() {
                self.sites.push(it.span);
            }
        }
        rustc_hir::intravisit::walk_impl_item(self, it);
    }
}
