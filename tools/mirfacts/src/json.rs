//! Minimal JSON value and serializer (no dependencies).
pub enum Json {
    Null,
    Bool(bool),
    Num(i128),
    Str(String),
    Arr(Vec<Json>),
    Obj(Vec<(String, Json)>),
}

fn esc(s: &str, out: &mut String) {
    out.push('"');
    for c in s.chars() {
        match c {
            '"' => out.push_str("\\\""),
            '\\' => out.push_str("\\\\"),
            '\n' => out.push_str("\\n"),
            '\r' => out.push_str("\\r"),
            '\t' => out.push_str("\\t"),
            c if (c as u32) < 0x20 => out.push_str(&format!("\\u{:04x}", c as u32)),
            c => out.push(c),
        }
    }
    out.push('"');
}

impl Json {
    pub fn write(&self, out: &mut String) {
        match self {
            Json::Null => out.push_str("null"),
            Json::Bool(b) => out.push_str(if *b { "true" } else { "false" }),
            Json::Num(n) => out.push_str(&n.to_string()),
            Json::Str(s) => esc(s, out),
            Json::Arr(v) => {
                out.push('[');
                for (i, x) in v.iter().enumerate() {
                    if i > 0 {
                        out.push(',');
                    }
                    x.write(out);
                }
                out.push(']');
            }
            Json::Obj(v) => {
                out.push('{');
                for (i, (k, x)) in v.iter().enumerate() {
                    if i > 0 {
                        out.push(',');
                    }
                    esc(k, out);
                    out.push(':');
                    x.write(out);
                }
                out.push('}');
            }
        }
    }
}
