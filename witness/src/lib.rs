//! Type-level witnesses (compile_fail) for the encapsulation clauses of C01.O1 and C06.O5 / C07.O3.
//! Every witness names the crate as an external user would and is paired with a compiling twin that differs only
//! in the offending line, so that a witness whose path is merely wrong cannot pass.
//! Run: cargo +nightly test --doc   (the error codes are only checked on nightly).

/// W1 — a `Data` cannot be built around the length check: the tuple constructor is private.
/// ```compile_fail,E0423
/// use std::borrow::Cow;
/// let d = flipdot_core::Data(Cow::Borrowed(&[0u8; 300][..]));
/// ```
/// twin:
/// ```
/// let d = flipdot_core::Data::try_new(&[0u8; 300][..]);
/// assert!(d.is_err());
/// ```
pub struct W1;

/// W2 — a `Frame` cannot be built with a struct literal (private fields), so its data always went through `Data`.
/// ```compile_fail,E0451
/// use flipdot_core::{Address, Data, Frame, MsgType};
/// let d = Data::try_new(vec![1u8]).unwrap();
/// let f = Frame { address: Address(1), message_type: MsgType(1), data: d };
/// ```
/// twin:
/// ```
/// use flipdot_core::{Address, Data, Frame, MsgType};
/// let d = Data::try_new(vec![1u8]).unwrap();
/// let f = Frame::new(Address(1), MsgType(1), d);
/// ```
pub struct W2;

/// W3 — there is no infallible conversion from a 256-byte array (only lengths 0..=4 have `From` impls).
/// ```compile_fail,E0277
/// static BIG: [u8; 256] = [0; 256];
/// let d = flipdot_core::Data::from(&BIG);
/// ```
/// twin:
/// ```
/// static SMALL: [u8; 4] = [0; 4];
/// let d = flipdot_core::Data::from(&SMALL);
/// ```
pub struct W3;

/// W4 — a frame's data cannot be mutated in place: `Frame::data` hands out a shared reference.
/// ```compile_fail,E0596
/// use flipdot_core::{Address, Data, Frame, MsgType};
/// let f = Frame::new(Address(1), MsgType(1), Data::try_new(vec![1u8]).unwrap());
/// f.data().to_mut().push(2);
/// ```
/// twin:
/// ```
/// use flipdot_core::{Address, Data, Frame, MsgType};
/// let f = Frame::new(Address(1), MsgType(1), Data::try_new(vec![1u8]).unwrap());
/// let mut copy = f.data().clone();
/// copy.to_mut().push(2);
/// ```
pub struct W4;

/// W5 — a page's bytes cannot be written through `as_bytes` (shared slice).
/// ```compile_fail,E0594
/// use flipdot_core::{Page, PageId};
/// let page = Page::new(PageId(0), 8, 8);
/// page.as_bytes()[0] = 7;
/// ```
/// twin:
/// ```
/// use flipdot_core::{Page, PageId};
/// let page = Page::new(PageId(0), 8, 8);
/// let b = page.as_bytes()[0];
/// assert_eq!(b, 0);
/// ```
pub struct W5;

/// W6 — a page's private fields cannot be reached from outside (no resizing behind the layout's back).
/// ```compile_fail,E0616
/// use flipdot_core::{Page, PageId};
/// let mut page = Page::new(PageId(0), 8, 8);
/// page.width = 9;
/// ```
/// twin:
/// ```
/// use flipdot_core::{Page, PageId};
/// let page = Page::new(PageId(0), 8, 8);
/// assert_eq!(page.width(), 8);
/// ```
pub struct W6;

/// W7 — a `Page` cannot be built with a struct literal (private fields): only `new` / `from_bytes` construct it.
/// ```compile_fail,E0451
/// use std::borrow::Cow;
/// let p = flipdot_core::Page { width: 1, height: 1, bytes: Cow::Owned(vec![0u8; 3]) };
/// ```
/// twin:
/// ```
/// let p = flipdot_core::Page::from_bytes(1, 1, vec![0u8; 3]);
/// assert!(p.is_err());
/// ```
pub struct W7;
